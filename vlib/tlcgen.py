"""TLC as generator: behaviours enumerated by the Gen_* configurations of the Lib* state
machines are turned into harness behaviours (spec -> implementation direction)."""
import json
import os
import re
import shutil
import subprocess
import time

from . import run as R
from .beh import Beh, Seqn, sym
from . import campaigns as C


def tlc_behaviours(cfg, module, workers=4, timeout=1800):
    metadir = os.path.join(R.WORK, "gen_" + os.path.splitext(cfg)[0])
    shutil.rmtree(metadir, ignore_errors=True)
    env = dict(os.environ)
    env["JAVA_TOOL_OPTIONS"] = R.TLC_JAVA_OPTS + " -Xmx8g"
    cmd = R.tlc_cmd(workers, cfg, module, metadir)
    t0 = time.time()
    p = subprocess.run(cmd, cwd=R.SPEC, env=env, stdout=subprocess.PIPE, stderr=subprocess.STDOUT, text=True, timeout=timeout)
    shutil.rmtree(metadir, ignore_errors=True)
    out = p.stdout
    behs = []
    states = trans = 0
    for line in out.splitlines():
        m = re.match(r'^<<"BEH", "(.*)">>$', line)
        if m:
            behs.append(json.loads(json.loads('"' + m.group(1) + '"')))
        m = re.match(r"^(\d+) states generated, (\d+) distinct states found", line)
        if m:
            trans, states = int(m.group(1)), int(m.group(2))
    if "Model checking completed. No error has been found." not in out:
        raise R.ToolError("TLC generator %s failed:\n%s" % (cfg, "\n".join(out.splitlines()[-25:])))
    return behs, states, trans, time.time() - t0


def apply_bvm(bits, e):
    """mirror of a mutator on a python list (only used to choose observation arguments)"""
    m = e["m"]
    a = e.get("a", [])
    if m == "push":
        bits.append(a[0])
    elif m == "append_bits":
        ws = set(e["w"])
        bits += [1 if i in ws else 0 for i in range(a[0])]
    elif m == "extend_with_zeros":
        bits += [0] * a[0]
    elif m == "set":
        bits[a[0]] = a[1]
    elif m == "set_bits":
        ws = set(e["w"])
        for t in range(a[1]):
            bits[a[0] + t] = 1 if t in ws else 0
    elif m == "extend_bools":
        bits += e["bits"]
    elif m == "extend_positions":
        for p in e["pos"]:
            if p >= len(bits):
                bits += [0] * (p + 1 - len(bits))
            bits[p] = 1


def gen_bv(tier, rnd, stats):
    cfg = "Gen_bv_%s.cfg" % tier
    behs, states, trans, dt = tlc_behaviours(cfg, "MC_LibBV.tla")
    replayed = behs if len(behs) <= 6000 else rnd.sample(behs, 6000)
    stats["mc"].append({"cfg": cfg, "role": "behaviour generator", "states": states, "transitions": trans, "behaviours": len(behs),
                        "behaviours_replayed": len(replayed), "wall_s": round(dt, 1)})
    stats["states"] += states
    stats["transitions"] += trans
    b = Beh()
    for hist in replayed:
        b.reset()
        o = b.newb("BVM", "bvm_new")
        bits = []
        for e in hist:
            ev = dict(e)
            ev["o"] = o
            if ev.get("m") == "extend_bools" and rnd.random() < 0.3:
                ev["m"] = "extend_bools_filter"     # the same step through an iterator with an inexact size hint
            b.add(ev)
            apply_bvm(bits, e)
        C.bvm_observe(b, o, bits, rnd, light=True)
        if rnd.random() < 0.3:
            bv = b.conv(o, "into_bv", keep=1)
            C.bvm_observe(b, bv, bits, rnd, kind="BV", light=True)
            ref = b.newb("BV", "bools", Seqn.from_values(bits))
            b.eq(bv, ref)
    return b


def gen_it(tier, rnd, stats):
    cfg = "Gen_it_%s.cfg" % tier
    behs, states, trans, dt = tlc_behaviours(cfg, "MC_LibIt.tla")
    stats["mc"].append({"cfg": cfg, "role": "behaviour generator", "states": states, "transitions": trans, "behaviours": len(behs), "wall_s": round(dt, 1)})
    stats["states"] += states
    stats["transitions"] += trans
    b = Beh()
    # behaviours: [n |-> length, ops |-> <<"n","b","l",...>>]; grouped per length and replayed on every tree kind
    by_n = {}
    for h in behs:
        by_n.setdefault(h["n"], []).append(h["ops"])
    kinds = C.rotate(C.TREE_KINDS, rnd)
    types = C.rotate(C.UTYPES, rnd)
    for n, words in sorted(by_n.items()):
        for kind in (C.TREE_KINDS if tier == "thorough" else [next(kinds) for _ in range(3)]):
            ty = next(types)
            vals = C.rand_seq(rnd, n, [0, 1, 2, min(C.tmax(ty), 300), 7])
            s = Seqn.from_values(vals)
            b.reset()
            o = b.newt(kind, ty, "from_vec", s)
            for w in words:
                b.ith(o, rnd.choice(["iter", "iter", "ref_into_iter", "into_iter"]), w, keep=1)
    return b


def unsym(e):
    v = 0
    for limb in e[1:]:
        v = (v << 24) | limb
    return -v if e[0] == 1 else v


def gen_qb(tier, rnd, stats):
    cfg = "Gen_qb_%s.cfg" % tier
    behs, states, trans, dt = tlc_behaviours(cfg, "MC_LibQB.tla")
    nall = len(behs)
    if nall > 2500:
        behs = rnd.sample(behs, 2500)
    stats["mc"].append({"cfg": cfg, "role": "behaviour generator", "states": states, "transitions": trans, "behaviours": nall,
                        "behaviours_replayed": len(behs), "wall_s": round(dt, 1)})
    stats["states"] += states
    stats["transitions"] += trans
    b = Beh()
    starts = C.rotate(["qb_new", "default", "qb_with_capacity"], rnd)
    for hist in behs:
        b.reset()
        qb = b.newq("QB", "u8", next(starts), Seqn.from_values([0] * rnd.choice([0, 1, 300])))
        vals = []
        for e in hist:
            ev = dict(e)
            ev["o"] = qb
            b.add(ev)
            if e["m"] == "qpush":
                vals.append(e["a"][0] % 4)
            else:
                vals += [unsym(x) % 4 for x in e["vals"]]
        qv = b.conv(qb, "qbuild", keep=0)
        C.qv_observe(b, qv, len(vals), rnd)
        ref = b.newq("QV", "u8", "collect", Seqn.from_values(vals))
        b.eq(qv, ref)
    return b


def gen_conv(tier, rnd, stats):
    """every conversion chain of the type-state machine LibConv, replayed on real values"""
    cfg = "Gen_conv_%s.cfg" % tier
    behs, states, trans, dt = tlc_behaviours(cfg, "MC_LibConv.tla")
    stats["mc"].append({"cfg": cfg, "role": "behaviour generator", "states": states, "transitions": trans, "behaviours": len(behs), "wall_s": round(dt, 1)})
    stats["states"] += states
    stats["transitions"] += trans
    b = Beh()
    types = C.rotate(C.UTYPES, rnd)
    bit_lens = C.rotate([0, 1, 63, 64, 65, 511, 512, 513, 1030, 2100], rnd)
    quad_lens = C.rotate([0, 1, 127, 128, 129, 255, 256, 257, 520, 1100], rnd)
    final_kind = {"into_bv": "BV", "into_bvm": "BVM", "rs_narrow": "RSN", "rs_narrow_from": "RSN", "rs_wide": "RSW", "rs_wide_from": "RSW",
                  "da0": "DA0", "da1": "DA1", "qbuild": "QV", "rsq256": "RSQ256", "rsq512": "RSQ512"}
    for h in behs:
        start, ms = h["start"], h["ms"]
        b.reset()
        kind = start
        ty = "u8"
        if start in C.TREE_KINDS:
            ty = next(types)
            huff = start.startswith("H")
            n = rnd.choice([0, 1, 9, 70, 300])
            alph = [0, 1, 2, min(C.tmax(ty), 9), min(C.tmax(ty), 200), min(C.tmax(ty), 70000)]
            s = Seqn.from_values(C.rand_seq(rnd, n, alph) if not huff else C.skewed_seq(rnd, n, sorted(set(alph)), 1.7))
            o = b.newt(start, ty, rnd.choice(["new", "from_vec", "collect"]), s)
        elif start in ("QB", "QV", "RSQ256", "RSQ512"):
            n = next(quad_lens)
            s = Seqn.from_values(C.rand_seq(rnd, n, [0, 1, 2, 3]))
            o = b.newq(start, "u8", "collect", s)
        else:
            n = next(bit_lens)
            s = Seqn.from_values(C.rand_seq(rnd, n, [0, 1]) if rnd.random() < 0.7 else C.rand_seq(rnd, n, [0]) + ([1] if n else []))
            o = b.newb(start, "bools" if start in ("BV", "BVM") else "new", s)
        for m in ms:
            o = b.conv(o, m, keep=0)
            kind = final_kind.get(m, kind)
        # observations of the final kind
        if kind in C.TREE_KINDS:
            C.tree_queries(b, o, s, ty, rnd, nrand=6)
        elif kind in ("QV", "RSQ256", "RSQ512"):
            C.quad_queries(b, o, s, rnd, rs=(kind != "QV"))
            ref = b.newq(kind, "u8", "collect", s)
            b.eq(o, ref)
        elif kind in ("BV", "BVM"):
            C.bvm_observe(b, o, s.values(), rnd, kind=kind, light=True)
            ref = b.newb(kind, "bools", s)
            b.eq(o, ref)
        elif kind != "QB":
            C.bit_rs_queries(b, o, s, rnd, rank=kind in ("RSN", "RSW"), select0=True)
            ref = b.newb(kind, "new", s)
            b.eq(o, ref)
    return b


def gen_pool(tier, rnd, stats):
    """histories of the two-slot pool machine LibPool (a conversion that keeps its source, then a
    mutation of one alias), replayed on real values; every live slot is observed at the end"""
    cfg = "Gen_pool_%s.cfg" % tier
    behs, states, trans, dt = tlc_behaviours(cfg, "MC_LibPool.tla")
    cap = 250 if tier == "quick" else 3000
    replayed = behs if len(behs) <= cap else rnd.sample(behs, cap)
    stats["mc"].append({"cfg": cfg, "role": "behaviour generator", "states": states, "transitions": trans, "behaviours": len(behs),
                        "behaviours_replayed": len(replayed), "wall_s": round(dt, 1)})
    stats["states"] += states
    stats["transitions"] += trans
    b = Beh()
    lens = C.rotate([0, 1, 63, 64, 65, 127, 128, 511, 512, 513, 1030], rnd)
    final_kind = {"into_bv": "BV", "into_bvm": "BVM", "rs_narrow": "RSN", "rs_narrow_from": "RSN", "rs_wide": "RSW", "rs_wide_from": "RSW",
                  "da0": "DA0", "da1": "DA1"}
    for h in replayed:
        b.reset()
        n = next(lens)
        bits = C.rand_seq(rnd, n, [0, 1])
        slot = {1: [b.newb("BVM", "bools", Seqn.from_values(bits)), list(bits), "BVM"], 2: None}
        for st in h["steps"]:
            s = st["s"]
            o, bs, kind = slot[s]
            if st["a"] == "mut":
                r = rnd.random()
                if r < 0.35 or not bs:
                    e = {"m": "push", "a": [rnd.choice([0, 1])]}
                elif r < 0.7:
                    i = rnd.choice([0, len(bs) - 1, rnd.randrange(len(bs))])
                    e = {"m": "set", "a": [i, 1 - bs[i]]}      # always a visible change
                elif r < 0.85:
                    e = {"m": "extend_with_zeros", "a": [rnd.choice([1, 63, 64, 65])]}
                else:
                    e = {"m": "extend_bools", "bits": [rnd.choice([0, 1]) for _ in range(rnd.choice([1, 64, 70]))]}
                b.mut(o, e["m"], **{k: v for k, v in e.items() if k != "m"})
                apply_bvm(bs, e)
            else:
                m = st["m"]
                d = b.conv(o, m, keep=st["keep"])
                slot[3 - s] = [d, list(bs), final_kind.get(m, kind)]
                if not st["keep"]:
                    slot[s] = None
        for s in (1, 2):
            if slot[s] is None:
                continue
            o, bs, kind = slot[s]
            sq = Seqn.from_values(bs)
            if kind in ("BV", "BVM"):
                C.bvm_observe(b, o, bs, rnd, kind=kind, light=True)
                b.eq(o, b.newb(kind, "bools", sq))
            else:
                C.bit_rs_queries(b, o, sq, rnd, rank=kind in ("RSN", "RSW"), select0=True)
                b.eq(o, b.newb(kind, "new", sq))
    return b


GENERATORS = {"bv": gen_bv, "it": gen_it, "qb": gen_qb, "conv": gen_conv, "pool": gen_pool}


def generate(spec, tier, rnd, stats):
    return GENERATORS[spec](tier, rnd, stats)
