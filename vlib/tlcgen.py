"""TLC as generator: behaviours enumerated by the Gen_* configurations of the Lib* state
machines are turned into harness behaviours (spec -> implementation direction)."""
import json
import os
import re
import shutil
import subprocess
import time

from . import run as R
from .beh import Beh, Seqn, sym
from . import campaigns as C


def tlc_behaviours(cfg, module, workers=4, timeout=1800):
    metadir = os.path.join(R.WORK, "gen_" + os.path.splitext(cfg)[0])
    shutil.rmtree(metadir, ignore_errors=True)
    env = dict(os.environ)
    env["JAVA_TOOL_OPTIONS"] = R.TLC_JAVA_OPTS + " -Xmx8g"
    cmd = R.tlc_cmd(workers, cfg, module, metadir)
    t0 = time.time()
    p = subprocess.run(cmd, cwd=R.SPEC, env=env, stdout=subprocess.PIPE, stderr=subprocess.STDOUT, text=True, timeout=timeout)
    shutil.rmtree(metadir, ignore_errors=True)
    out = p.stdout
    behs = []
    states = trans = 0
    for line in out.splitlines():
        m = re.match(r'^<<"BEH", "(.*)">>$', line)
        if m:
            behs.append(json.loads(json.loads('"' + m.group(1) + '"')))
        m = re.match(r"^(\d+) states generated, (\d+) distinct states found", line)
        if m:
            trans, states = int(m.group(1)), int(m.group(2))
    if "Model checking completed. No error has been found." not in out:
        raise R.ToolError("TLC generator %s failed:\n%s" % (cfg, "\n".join(out.splitlines()[-25:])))
    return behs, states, trans, time.time() - t0


def apply_bvm(bits, e):
    """mirror of a mutator on a python list (only used to choose observation arguments)"""
    m = e["m"]
    a = e.get("a", [])
    if m == "push":
        bits.append(a[0])
    elif m == "append_bits":
        ws = set(e["w"])
        bits += [1 if i in ws else 0 for i in range(a[0])]
    elif m == "extend_with_zeros":
        bits += [0] * a[0]
    elif m == "set":
        bits[a[0]] = a[1]
    elif m == "set_bits":
        ws = set(e["w"])
        for t in range(a[1]):
            bits[a[0] + t] = 1 if t in ws else 0
    elif m == "extend_bools":
        bits += e["bits"]
    elif m == "extend_positions":
        for p in e["pos"]:
            if p >= len(bits):
                bits += [0] * (p + 1 - len(bits))
            bits[p] = 1


def gen_bv(tier, rnd, stats):
    cfg = "Gen_bv_%s.cfg" % tier
    behs, states, trans, dt = tlc_behaviours(cfg, "MC_LibBV.tla")
    replayed = behs if len(behs) <= 6000 else rnd.sample(behs, 6000)
    stats["mc"].append({"cfg": cfg, "role": "behaviour generator", "states": states, "transitions": trans, "behaviours": len(behs),
                        "behaviours_replayed": len(replayed), "wall_s": round(dt, 1)})
    stats["states"] += states
    stats["transitions"] += trans
    b = Beh()
    for hist in replayed:
        b.reset()
        o = b.newb("BVM", "bvm_new")
        bits = []
        for e in hist:
            ev = dict(e)
            ev["o"] = o
            b.add(ev)
            apply_bvm(bits, e)
        C.bvm_observe(b, o, bits, rnd, light=True)
        if rnd.random() < 0.3:
            bv = b.conv(o, "into_bv", keep=1)
            C.bvm_observe(b, bv, bits, rnd, kind="BV", light=True)
            ref = b.newb("BV", "bools", Seqn.from_values(bits))
            b.eq(bv, ref)
    return b


def gen_it(tier, rnd, stats):
    cfg = "Gen_it_%s.cfg" % tier
    behs, states, trans, dt = tlc_behaviours(cfg, "MC_LibIt.tla")
    stats["mc"].append({"cfg": cfg, "role": "behaviour generator", "states": states, "transitions": trans, "behaviours": len(behs), "wall_s": round(dt, 1)})
    stats["states"] += states
    stats["transitions"] += trans
    b = Beh()
    # behaviours: [n |-> length, ops |-> <<"n","b","l",...>>]; grouped per length and replayed on every tree kind
    by_n = {}
    for h in behs:
        by_n.setdefault(h["n"], []).append(h["ops"])
    kinds = C.rotate(C.TREE_KINDS, rnd)
    types = C.rotate(C.UTYPES, rnd)
    for n, words in sorted(by_n.items()):
        for kind in (C.TREE_KINDS if tier == "thorough" else [next(kinds) for _ in range(3)]):
            ty = next(types)
            vals = C.rand_seq(rnd, n, [0, 1, 2, min(C.tmax(ty), 300), 7])
            s = Seqn.from_values(vals)
            b.reset()
            o = b.newt(kind, ty, "from_vec", s)
            for w in words:
                b.ith(o, rnd.choice(["iter", "iter", "ref_into_iter", "into_iter"]), w, keep=1)
    return b


def unsym(e):
    v = 0
    for limb in e[1:]:
        v = (v << 24) | limb
    return -v if e[0] == 1 else v


def gen_qb(tier, rnd, stats):
    cfg = "Gen_qb_%s.cfg" % tier
    behs, states, trans, dt = tlc_behaviours(cfg, "MC_LibQB.tla")
    stats["mc"].append({"cfg": cfg, "role": "behaviour generator", "states": states, "transitions": trans, "behaviours": len(behs), "wall_s": round(dt, 1)})
    stats["states"] += states
    stats["transitions"] += trans
    b = Beh()
    starts = C.rotate(["qb_new", "default", "qb_with_capacity"], rnd)
    for hist in behs:
        b.reset()
        qb = b.newq("QB", "u8", next(starts), Seqn.from_values([0] * rnd.choice([0, 1, 300])))
        vals = []
        for e in hist:
            ev = dict(e)
            ev["o"] = qb
            b.add(ev)
            if e["m"] == "qpush":
                vals.append(e["a"][0] % 4)
            else:
                vals += [unsym(x) % 4 for x in e["vals"]]
        qv = b.conv(qb, "qbuild", keep=0)
        C.qv_observe(b, qv, len(vals), rnd)
        ref = b.newq("QV", "u8", "collect", Seqn.from_values(vals))
        b.eq(qv, ref)
    return b


GENERATORS = {"bv": gen_bv, "it": gen_it, "qb": gen_qb}


def generate(spec, tier, rnd, stats):
    return GENERATORS[spec](tier, rnd, stats)
