"""Which specification configs and which campaigns decide which property."""
from . import campaigns as C

Q = {"quick": ["opt"], "thorough": ["opt", "chk"]}
QC = {"quick": ["opt", "chk"], "thorough": ["opt", "chk"]}


def camp(name, gen, tags=Q, **kw):
    d = {"name": name, "gen": gen, "tags": tags}
    d.update(kw)
    return d


def mc(module, quick, thorough=None, **kw):
    d = {"module": module + ".tla", "cfg": {"quick": quick + ".cfg", "thorough": (thorough or quick) + ".cfg"}}
    d.update(kw)
    return d


# specification-level model checking per property: Level-0 state machines and the Level-1
# design models the property rests on (quick: smaller bounds; thorough: the full bounds)
MC = {
    "C01": [mc("WM", "MC_WM_k4"), mc("WM", "MC_WM_k4_long", tiers=("thorough",)), mc("RSQ", "MC_RSQ_bs2_quick", "MC_RSQ_bs2_deep"), mc("RSQ", "MC_RSQ_bs4_quick", "MC_RSQ_bs4_deep")],
    "C02": [mc("HuffWM", "MC_HuffWM_k4_quick", "MC_HuffWM_k4"), mc("HuffWM", "MC_HuffWM_k4_codes"), mc("HuffWM", "MC_HuffWM_k4_equiv_finished", tiers=("thorough",)), mc("RSQ", "MC_RSQ_bs2_quick", "MC_RSQ_bs2_deep")],
    "C03": [mc("WM", "MC_WM_k2"), mc("HuffWM", "MC_HuffWM_k2_quick", "MC_HuffWM_k2"), mc("RSBin", "MC_RSBin_wide_quick", "MC_RSBin_wide_deep")],
    "C10": [mc("MC_Clauses", "MC_Clauses_quick", "MC_Clauses", workers=4)],
    "C04": [mc("MC_Clauses", "MC_Clauses_quick", "MC_Clauses", workers=4), mc("RSQ", "MC_RSQ_bs2_quick", "MC_RSQ_bps4"), mc("RSBin", "MC_RSBin_narrow_quick", "MC_RSBin_narrow_deep"), mc("DArr", "MC_DArr_quick", "MC_DArr_deep"),
            mc("Pfs", "MC_Pfs_quick", "MC_Pfs"), mc("MC_BitVecLines", "MC_BitVecLines", "MC_BitVecLines_thorough")],
    "C05": [mc("QLine", "MC_QLine", workers=4), mc("RSQ", "MC_RSQ_bs2_quick", "MC_RSQ_bs2_deep"), mc("RSQ", "MC_RSQ_bs4_quick", "MC_RSQ_bs4_deep"), mc("RSQ", "MC_RSQ_bps4", tiers=("thorough",))],
    "C06": [mc("BLine", "MC_BLine", workers=4), mc("RSBin", "MC_RSBin_narrow_quick", "MC_RSBin_narrow_deep"), mc("RSBin", "MC_RSBin_wide_quick", "MC_RSBin_wide_deep")],
    "C07": [mc("DArr", "MC_DArr_quick", "MC_DArr_deep"), mc("PosIter", "MC_PosIter", workers=6)],
    "C08": [mc("MC_LibBV", "MC_LibBV", "MC_LibBV_deep"), mc("MC_BitVecLines", "MC_BitVecLines", "MC_BitVecLines_thorough")],
    "C09": [mc("Pfs", "MC_Pfs_quick", "MC_Pfs"), mc("Pfs", "MC_Pfs_r4", tiers=("thorough",))],
    "C12": [mc("MC_LibIt", "MC_LibIt"), mc("PosIter", "MC_PosIter", workers=6)],
    "C13": [mc("MC_LibQB", "MC_LibQB"), mc("MC_QVec", "MC_QVec"), mc("QLine", "MC_QLine", workers=4)],
    "C15": [mc("HuffWM", "MC_HuffWM_k4_quick", "MC_HuffWM_k4"), mc("HuffWM", "MC_HuffWM_k4_codes"), mc("HuffWM", "MC_HuffWM_k2_quick", "MC_HuffWM_k2")],
    "C17": [mc("Words", "MC_Words", workers=6)],
    "C18": [mc("MC_Conc", "MC_Conc_none", workers=4), mc("MC_Conc", "MC_Conc_atomic_pair", workers=4), mc("MC_Conc", "MC_Conc_torn_single", workers=4), mc("MC_Conc", "MC_Conc_lazy_linear", workers=4)],
    "C19": [mc("MC_LibConv", "MC_LibConv", workers=2), mc("MC_LibPool", "MC_LibPool", workers=2), mc("MC_LibPool", "MC_LibPool_props", workers=2), mc("MC_BitVecLines", "MC_BitVecLines", "MC_BitVecLines_thorough")],
    "C11": [mc("MC_LibConv", "MC_LibConv", workers=2)],
}

PLAN = {
    "C01": {"level": "model_checking", "campaigns": [camp("c01", C.camp_c01)]},
    "C02": {"level": "model_checking", "campaigns": [camp("c02", C.camp_c02)]},
    "C03": {"level": "model_checking", "campaigns": [camp("c03", C.camp_c03)]},
    "C04": {"level": "exploration", "campaigns": [camp("c04", C.camp_c04, QC)],
            "assumptions": ["allocator-level memory safety (provenance, alignment of from_raw_parts, reads inside an allocation but outside the intended object) is not observable by this technique; covered are panics, aborts, crashes, arithmetic overflow in the checked build, and every data-dependent unchecked index through the cfg(qwt_verif) monitor",
                            "the two documented panics that need 2^43 symbols or allocation failure are not exercised"]},
    "C05": {"level": "model_checking", "campaigns": [camp("c05", C.camp_c05)]},
    "C06": {"level": "model_checking", "campaigns": [camp("c06", C.camp_c06)]},
    "C07": {"level": "model_checking", "campaigns": [camp("c07", C.camp_c07)]},
    "C08": {"level": "model_checking",
            "campaigns": [camp("c08", C.camp_c08), {"name": "c08tlc", "tlcgen": "bv", "tags": QC}]},
    "C09": {"level": "model_checking", "campaigns": [camp("c09", C.camp_c09, {"quick": ["opt", "opt-nopf", "chk"], "thorough": ["opt", "opt-nopf", "chk", "chk-nopf"]},
                                                         xbuild={"quick": ("opt", "opt-nopf"), "thorough": ("opt", "opt-nopf")})]},
    "C10": {"level": "model_checking", "campaigns": [camp("c10", C.camp_c10, QC)]},
    "C11": {"level": "model_checking", "campaigns": [{"name": "c11tlc", "tlcgen": "conv", "tags": Q}, camp("c11", C.camp_c11, {"quick": ["opt"], "thorough": ["opt", "chk"]})]},
    "C12": {"level": "model_checking",
            "campaigns": [{"name": "c12tlc", "tlcgen": "it", "tags": Q}, camp("c12", C.camp_c12)]},
    "C13": {"level": "model_checking", "campaigns": [{"name": "c13tlc", "tlcgen": "qb", "tags": QC}, camp("c13", C.camp_c13)]},
    "C19": {"level": "model_checking", "campaigns": [{"name": "c19tlc", "tlcgen": "conv", "tags": Q}, {"name": "c19pool", "tlcgen": "pool", "tags": Q}, camp("c19", C.camp_c19)]},
    "C14": {"level": "model_checking", "campaigns": [camp("c14", C.camp_c14, {"quick": ["opt"], "thorough": ["opt"]})]},
    "C15": {"level": "model_checking", "campaigns": [camp("c15", C.camp_c15, {"quick": ["opt"], "thorough": ["opt"]})]},
    "C16": {"level": "model_checking", "campaigns": [camp("c16", C.camp_c16, {"quick": ["opt"], "thorough": ["opt"]})]},
    "C17": {"level": "model_checking", "campaigns": [camp("c17", C.camp_c17, QC)]},
    "C18": {"level": "exploration", "probe": True, "campaigns": [camp("c18", C.camp_c18, {"quick": ["opt"], "thorough": ["opt", "chk"]})],
            "assumptions": ["real thread schedules are sampled (2-16 threads released by a barrier, repeated batches), not enumerated; a data race that changes no answer in the sampled schedules is invisible to this technique",
                            "Send + Sync is decided exactly by the compile-time probe crate /verif/probe"]},
}

_TV = "TLC trace validation of recorded executions of the real library against the Level-0 TLA+ clause tables (TraceLib.tla)"


def _t(level_text, technique, note=None):
    return {"level_text": level_text, "technique": technique,
            "level_note": note or "Trusted: TLC, the harness's rendering of arguments/results (no oracle inside; binding demonstrated by bin/selftest), rustc. "
            "Exhaustive only for the TLC-enumerated small spaces; the seeded boundary families sample the rest."}


TEXTS = {
    "C01": _t("Every recorded get/rank/select/len/sigma outcome of the four plain quad tree aliases over six element types is decided by TLC against the abstract-sequence clause table; inputs are boundary families derived from the real constants plus seeded random ones.", _TV + "; seeded boundary-shape behaviours"),
    "C02": _t("As C01 for the Huffman-shaped quad trees, with the builder's tie order among equal-length codes forced through the cfg(qwt_verif) hook (ascending, descending, seeded, every permutation for alphabets <= 4).", _TV + "; tie orders enumerated through the hook"),
    "C03": _t("As C01/C02 for WT and HWT including symbols wider than 32/64 bits, select above max, empty and single-symbol inputs.", _TV),
    "C05": _t("RSQVector256/512 get/rank/select/occs/occs_smaller on boundary-length, periodic, run and rare-symbol inputs judged by TLC against the plain quaternary sequence.", _TV),
    "C06": _t("RSNarrow/RSWide get/rank1/rank0/select1/select0/totals on boundary lengths, densities and hint-period crossings judged by TLC.", _TV),
    "C07": _t("DArray select1/select0/len/counts/get/iterators over all words of dense/sparse/exact-threshold groups (length <= 2 quick, <= 3 thorough) judged by TLC.", _TV),
}

NOT_APPLICABLE = {}
for _p in ["C04", "C08", "C09", "C10", "C11", "C12", "C13", "C14", "C15", "C16", "C17", "C18", "C19"]:
    if _p not in PLAN:
        NOT_APPLICABLE[_p] = "check under construction in this revision of /verif (the specification covers it; see DESIGN.md section 6); not claimed yet"

TEXTS.update({
    "C08": _t("Random and enumerated operation histories on BitVectorMut (all mutators, conversions to/from BitVector, clone, collect) with the full observation set after the steps; TLC tracks the abstract bit sequence through the history and judges every observation.", _TV + "; histories replayed step by step through the specification's mutator actions"),
    "C09": _t("rank vs rank_prefetch on the same object for valid and invalid arguments (relation judged by TLC), and the same behaviours executed with the crate feature prefetch on and off, whose outcomes TLC requires to be identical; unchecked-index hook on the prefetch sample lookup.", _TV + "; cross-build trace comparison"),
    "C10": _t("Unchecked methods are called only where the specification's precondition holds (TLC re-checks it) and must equal the checked twin, in the optimized build and in the build with debug assertions and overflow checks.", _TV + "; relation unchecked = checked on spec-legal arguments in two build profiles"),
    "C11": _t("bincode round trip of every serializable kind: success, equality, and identical answers of original and copy on full query grids, judged by TLC.", _TV),
    "C12": _t("Every call word over {next, next_back, len} up to |S|+2 (quick) / |S|+3 (thorough) on every tree kind, forward histories on bit/quad/position iterators including calls after exhaustion, random words with the skipping calls nth(1)/nth(3)/nth_back(2); TLC folds the specification's iterator step function over each word. Thorough: the iterator machine's inductive invariant by Apalache and a TLAPS proof (unbounded length, nth(k) for every k).", _TV + "; TLC-enumerated call words (LibIt.tla) replayed on the implementation"),
    "C13": _t("Every QVectorBuilder push/extend history of length 2 (quick) / 3 (thorough) over the argument sets of Gen_qb_*.cfg is enumerated by TLC from the LibQB state machine and replayed on the real builder; random longer histories and collection from all twelve integer types with negative and large values; TLC computes v mod 4 in two's complement from the logged values; iteration through next and the skipping calls nth(1)/nth(3).", _TV + "; TLC-enumerated builder histories (LibQB.tla) replayed on the implementation"),
    "C19": _t("Every construction path, clone, rebuild-from-iterator and wider carrier type of the same input must answer identically and (non-Huffman) compare equal; one-element edits must compare unequal.", _TV),
})
for _p in list(NOT_APPLICABLE):
    if _p in PLAN:
        del NOT_APPLICABLE[_p]

TEXTS["C04"] = _t("Total-argument campaign: every kind, every way of obtaining a value (constructors, Default, Clone, serde round trip, rebuilt from its iterator, conversions) and every safe method with arguments from the whole domain (0, boundaries +-1, eight huge tokens up to usize::MAX, symbols 4..=255 on quad structures, symbols far above max), in the optimized build and in the build with debug assertions and overflow checks; TLC rejects any panic, crash or hang outside the documented-panic clauses, any Some for an invalid argument, and any out-of-range index reported by the unchecked-index monitor.",
                   _TV + "; whole-domain argument enumeration in two build profiles; cfg(qwt_verif) unchecked-index monitor",
                   "Exploration level: the argument families are enumerated per kind but inputs are sampled. Not observable: allocator-level UB without a crash, reads inside an allocation but outside the intended field. Trusted: TLC, harness rendering, the index monitor's site list (DESIGN.md Appendix C).")
for _p in list(NOT_APPLICABLE):
    if _p in PLAN:
        del NOT_APPLICABLE[_p]

TEXTS.update({
    "C14": _t("The heap bytes each plain structure keeps alive (counting allocator, input dropped) are compared by TLC with the layout bound of Space.tla: per level 2 bits/symbol (1 bit for WT) plus the stated relative overhead plus 1 % plus a per-level constant, for all construction paths and n up to 4*10^5 (quick) / 2*10^6 (thorough).", _TV + "; Space.tla layout bounds in integer arithmetic",
               "Trusted: the harness's counting global allocator (requested bytes, live at the end of construction), TLC. The per-level constants (1 KiB, 2 KiB with prefetch support, 512 B for binary levels) are the 'term proportional to the number of levels' of the statement."),
    "C15": _t("For Huffman-shaped trees TLC computes an upper bound of n*H0 from the symbol counts (fixed-point log2, rounded so that the bound is never stricter than stated) and checks level data <= n*(H0 + 2 | 1), level data <= plain tree's level data, and heap <= per-level layout bound + symbol-indexed tables.", _TV + "; Space.tla entropy bound with a fixed-point log2 table",
               "The per-level lengths are read from the value's own serialized form (field `lens`) by a field-extracting serializer in the harness. A code that is non-optimal by less than about 0.05 bit/symbol is not detected."),
    "C16": _t("space_usage_byte() against heap + size_of for every SpaceUsage kind and construction path: |reported - actual| <= 4 % + 256 B per component (+ 2304 B + 72 B per symbol value for Huffman code tables), and KiB/MiB/GiB equal the byte figure scaled (exact in f64); also the std containers the crate implements SpaceUsage for (Vec<T> with and without spare capacity, Box<[T]> of primitives, of Vecs, of boxed slices and of BitVectors of unequal sizes).", _TV + "; Space.tla reported-vs-retained relation"),
    "C17": _t("select_in_word over the whole in-byte table in every byte lane, few-bit, full-byte and random words; the u128 variant across the 64-bit seam; popcnt_wide, msb on all powers of two +-1 per type, stable partitions on all short sequences embedded at boundary shifts of every element type, text_remap on all short byte strings: each outcome computed independently by TLC from the definition.", _TV + "; exhaustive small families per primitive"),
    "C18": _t("Send + Sync decided by a compile-time probe crate; purity by bit-identical bincode serialization before/after query batches run twice; history independence by asking every query grid in four different orders (per thread and per repetition) and comparing answers per query; sharing by 2-16 threads released together on one reference, every thread's answers compared with the sequential answers, which TLC judges against the clause tables. Conc.tla model-checks the schedule space of the pure design and of four impure designs (two must fail).", _TV + "; compile-time auto-trait probe; sampled thread schedules; TLC schedule model Conc.tla"),
})
for _p in list(NOT_APPLICABLE):
    if _p in PLAN:
        del NOT_APPLICABLE[_p]

for _p, _l in MC.items():
    PLAN[_p]["mc"] = _l

# model-fidelity report (never a verdict): which Level-1 tables are recomputed at the real constants
FIDELITY = {"C01": ["WM", "RSQ"], "C02": ["Huff4"], "C03": ["Huff2", "WM"], "C05": ["RSQ"], "C06": ["RSBin"], "C07": ["DArr"], "C15": ["Huff4", "Huff2"]}
for _p, _f in FIDELITY.items():
    PLAN[_p]["fidelity"] = _f
PLAN["C12"]["apalache"] = ("LibItInd.tla", [
    ("Init => IndInv", ["--init=Init", "--inv=IndInv", "--length=0"]),
    ("IndInv /\\ Next => IndInv'", ["--init=IndInit", "--inv=IndInv", "--length=1"]),
    ("IndInv => Safety", ["--init=IndInit", "--inv=Safety", "--length=0"]),
])
PLAN["C12"]["tlaps"] = "LibItProof.tla"


# vacuity guard: clause tags every run of a property's check must have exercised; if one is
# missing (and nothing was reported) the run decided nothing about that part of the property and
# the check ends as a tool problem (exit 2), never as "held"
REQUIRED_TAGS = {
    "C01": [r"^QWT\.rank\.gen", r"^QWT\.select\.gen", r"^QWT\.get\.in"],
    "C02": [r"^HQWT\.rank\.gen", r"^HQWT\.select\.gen", r"^HQWT\.get\.in"],
    "C03": [r"^WT\.rank\.gen", r"^HWT\.rank\.gen", r"^WT\.select\.gen", r"^HWT\.select\.gen"],
    "C04": [r"\.get\.out", r"select[01]?\.missing", r"rank[01]?\.pos_out"],
    "C05": [r"^RSQ\.rank\.gen", r"^RSQ\.select\.gen", r"^RSQ\.occs"],
    "C06": [r"^RSN\.rank1\.gen", r"^RSW\.rank1\.gen", r"^RSN\.select1\.gen", r"^RSW\.select0\.gen"],
    "C07": [r"^DA\.select1\.gen", r"^DA\.select0\.gen"],
    "C08": [r"^BVM\.mut\..*\.ok", r"^BV\.get_bits\.gen", r"^BV\.meta\.ones"],
    "C09": [r"^rel\.prefetch", r"^rel\.xbuild"],
    "C10": [r"^unchecked\.rank_unchecked", r"^unchecked\.select_unchecked", r"^unchecked\.get_unchecked"],
    "C11": [r"^conv\.serde\..*\.eq", r"^rel\.serde"],
    "C12": [r"^WTIter\.next\.live", r"^WTIter\.next_back\.live", r"^WTIter\.len", r"^BVIter", r"^PosIter", r"^QVIter"],
    "C13": [r"^QV\.get\.in", r"^QB\.mut\.qpush\.ok", r"^QB\.mut\.qextend\.ok", r"^QVIter"],
    "C14": [r"^space\.bound\.QWT", r"^space\.bound\.WT", r"^space\.bound\.RSQ256"],
    "C15": [r"^space\.huff\.entropy\.HQWT", r"^space\.huff\.entropy\.HWT", r"^space\.huff\.not_above_plain"],
    "C16": [r"^space\.reported\.QWT", r"^space\.reported\.HWT", r"^space\.reported\.std", r"^space\.scaled"],
    "C17": [r"^util\.select_in_word\.found", r"^util\.select_in_word_u128", r"^util\.popcnt_wide", r"^util\.msb", r"^util\.part4", r"^util\.part2", r"^util\.text_remap"],
    "C18": [r"^pure\.serialized_form", r"^pure\.repeatable", r"^thr\.same_as_sequential"],
    "C19": [r"^eq\..*\.same", r"^eq\..*\.different", r"^rel\.path", r"^rel\.clone", r"^rel\.carrier"],
}
