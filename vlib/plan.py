"""Which specification configs and which campaigns decide which property."""
from . import campaigns as C

Q = {"quick": ["opt"], "thorough": ["opt", "chk"]}
QC = {"quick": ["opt", "chk"], "thorough": ["opt", "chk"]}


def camp(name, gen, tags=Q, **kw):
    d = {"name": name, "gen": gen, "tags": tags}
    d.update(kw)
    return d


PLAN = {
    "C01": {"level": "model_checking", "campaigns": [camp("c01", C.camp_c01)]},
    "C02": {"level": "model_checking", "campaigns": [camp("c02", C.camp_c02)]},
    "C03": {"level": "model_checking", "campaigns": [camp("c03", C.camp_c03)]},
    "C05": {"level": "model_checking", "campaigns": [camp("c05", C.camp_c05)]},
    "C06": {"level": "model_checking", "campaigns": [camp("c06", C.camp_c06)]},
    "C07": {"level": "model_checking", "campaigns": [camp("c07", C.camp_c07)]},
    "C08": {"level": "model_checking", "campaigns": [camp("c08", C.camp_c08)]},
}

_TV = "TLC trace validation of recorded executions of the real library against the Level-0 TLA+ clause tables (TraceLib.tla)"


def _t(level_text, technique, note=None):
    return {"level_text": level_text, "technique": technique,
            "level_note": note or "Trusted: TLC, the harness's rendering of arguments/results (no oracle inside; binding demonstrated by bin/selftest), rustc. "
            "Exhaustive only for the TLC-enumerated small spaces; the seeded boundary families sample the rest."}


TEXTS = {
    "C01": _t("Every recorded get/rank/select/len/sigma outcome of the four plain quad tree aliases over six element types is decided by TLC against the abstract-sequence clause table; inputs are boundary families derived from the real constants plus seeded random ones.", _TV + "; seeded boundary-shape behaviours"),
    "C02": _t("As C01 for the Huffman-shaped quad trees, with the builder's tie order among equal-length codes forced through the cfg(qwt_verif) hook (ascending, descending, seeded, every permutation for alphabets <= 4).", _TV + "; tie orders enumerated through the hook"),
    "C03": _t("As C01/C02 for WT and HWT including symbols wider than 32/64 bits, select above max, empty and single-symbol inputs.", _TV),
    "C05": _t("RSQVector256/512 get/rank/select/occs/occs_smaller on boundary-length, periodic, run and rare-symbol inputs judged by TLC against the plain quaternary sequence.", _TV),
    "C06": _t("RSNarrow/RSWide get/rank1/rank0/select1/select0/totals on boundary lengths, densities and hint-period crossings judged by TLC.", _TV),
    "C07": _t("DArray select1/select0/len/counts/get/iterators over all words of dense/sparse/exact-threshold groups (length <= 2 quick, <= 3 thorough) judged by TLC.", _TV),
}

NOT_APPLICABLE = {}
for _p in ["C04", "C08", "C09", "C10", "C11", "C12", "C13", "C14", "C15", "C16", "C17", "C18", "C19"]:
    if _p not in PLAN:
        NOT_APPLICABLE[_p] = "check under construction in this revision of /verif (the specification covers it; see DESIGN.md section 6); not claimed yet"
