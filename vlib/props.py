"""Attribution of specification clause tags to the given properties, and the
known-findings file."""
import json
import os
import re

ROOT = os.path.dirname(os.path.dirname(os.path.abspath(__file__)))

PANIC_CODES = (-2, -4)


def is_panic(got):
    if isinstance(got, int):
        return got in PANIC_CODES
    if isinstance(got, list) and len(got) == 1 and isinstance(got[0], int):
        return got[0] in PANIC_CODES
    return False


FAMILY_PROP = {
    "QWT": "C01", "HQWT": "C02", "WT": "C03", "HWT": "C03",
    "RSQ": "C05", "RSN": "C06", "RSW": "C06", "DA": "C07", "BV": "C08", "BVM": "C08",
    "QV": "C13", "QB": "C13",
}

KIND_FAMILY = {
    "QWT256": "QWT", "QWT512": "QWT", "QWT256Pfs": "QWT", "QWT512Pfs": "QWT",
    "HQWT256": "HQWT", "HQWT512": "HQWT", "HQWT256Pfs": "HQWT", "HQWT512Pfs": "HQWT",
    "WT": "WT", "HWT": "HWT", "RSQ256": "RSQ", "RSQ512": "RSQ", "QV": "QV", "QB": "QB",
    "RSN": "RSN", "RSW": "RSW", "DA0": "DA", "DA1": "DA", "BV": "BV", "BVM": "BVM",
}


def props_of(mis):
    """set of property ids a mismatch record speaks about"""
    tag = mis["tag"]
    kind = mis.get("kind", "")
    fam = KIND_FAMILY.get(kind, "")
    out = set()
    head = tag.split(".")[0]
    if head == "testutil":
        return out      # perf_and_test_utils: outside the listed properties (reported as a note)
    if is_panic(mis.get("got")) or head in ("crash", "idx"):
        out.add("C04")
    if head == "crash":
        if fam in FAMILY_PROP:
            out.add(FAMILY_PROP[fam])
        return out
    if head == "idx":
        if ".pfs." in tag or tag.startswith("idx.pfs"):
            out.add("C09")
        return out
    if head == "BIGQ":
        if fam in FAMILY_PROP:
            out.add(FAMILY_PROP[fam])
        if tag.endswith((".missing", ".pos_out", ".out", ".sym_gt_3")):
            out.add("C04")
        return out
    if head == "BIG":
        # positions beyond 2^32: the property of the structure's family; a None / wrong value for
        # an invalid argument is a C04 matter as well
        if fam in FAMILY_PROP:
            out.add(FAMILY_PROP[fam])
        if tag.endswith((".missing", ".pos_out", ".out")):
            out.add("C04")
        return out
    if head == "rel":
        rel = tag.split(".")[1]
        out.add({"prefetch": "C09", "serde": "C11", "clone": "C19", "path": "C19", "carrier": "C19",
                 "xbuild": "C09", "conv": "C08", "iter": "C12"}.get(rel, "C19"))
        return out
    if head == "unchecked":
        out.add("C10")
        return out
    if head in ("thr", "pure"):
        out.add("C18")
        return out
    if head == "space":
        out.add({"bound": "C14", "huff": "C15", "reported": "C16", "scaled": "C16"}.get(tag.split(".")[1], "C16"))
        return out
    if head == "util":
        out.add("C17")
        return out
    if head == "conv":
        m = tag.split(".")[1]
        if m == "serde":
            out.add("C11")
        elif m in ("clone", "collect_iter"):
            out.add("C19")
            if fam in ("BV", "BVM"):
                out.add("C08")
        elif m in ("into_bv", "into_bvm"):
            out.add("C08")
        elif m in ("qbuild",):
            out.add("C13")
        else:
            out.add("C19")
        return out
    if head == "eq":
        out.add("C19")
        if fam in ("BV", "BVM"):
            out.add("C08")
        return out
    if head == "WTIter":
        out.add("C12")
        return out
    if head == "QVIter":
        out.add("C12")
        if fam in ("QV",):
            out.add("C13")
        return out
    if head in ("BVIter", "PosIter"):
        out.add("C12")
        if fam in ("BV", "BVM"):
            out.add("C08")
        if fam == "DA":
            out.add("C07")
        return out
    # <Family>.<method>.<class> and <Kind>.new.* / <Kind>.mut.*
    if ".prefetch." in tag:
        # absolute answers of rank_prefetch: C09 is relational (see rel.prefetch); a wrong
        # value here is a wrong rank and is reported by the functional property's own grids.
        # A panic of a prefetching call or of a prefetch hint, however, is what C09 forbids.
        if is_panic(mis.get("got")):
            out.add("C09")
        return out
    if head in FAMILY_PROP:
        out.add(FAMILY_PROP[head])
    elif fam in FAMILY_PROP:
        out.add(FAMILY_PROP[fam])
    # invalid arguments must give None (C04, second clause)
    if re.search(r"\.(pos_out|sym_gt_max|sym_gt_3|missing|out|bad_len|overflow|absent)$", tag):
        out.add("C04")
    return out


def load_known():
    p = os.path.join(ROOT, "known_findings.json")
    if not os.path.exists(p):
        return []
    with open(p) as f:
        return json.load(f).get("findings", [])


def match_known(mis, prop, known):
    """returns the open known-finding entry that lists this mismatch for `prop`, if any"""
    for k in known:
        if k.get("status") != "open":
            continue
        if k.get("property") != prop:
            continue
        if not re.fullmatch(k.get("tag", ".*"), mis["tag"]):
            continue
        if "kind" in k and not re.fullmatch(k["kind"], mis.get("kind", "")):
            continue
        if "ty" in k and not re.fullmatch(k["ty"], mis.get("ty", "")):
            continue
        if "build" in k and not re.fullmatch(k["build"], mis.get("b", "")):
            continue
        if "got" in k and k["got"] != mis.get("got"):
            continue
        if "exp" in k and k["exp"] != mis.get("exp"):
            continue
        if "outcome" in k:
            kind_of = "panic" if is_panic(mis.get("got")) else "value"
            if k["outcome"] != kind_of:
                continue
        return k
    return None
