"""Building the harness, executing behaviours, judging traces with TLC."""
import json
import os
import re
import shutil
import signal
import subprocess
import sys
import time

ROOT = os.path.dirname(os.path.dirname(os.path.abspath(__file__)))
HARNESS = os.path.join(ROOT, "harness")
SPEC = os.path.join(ROOT, "spec")
WORK = os.path.join(ROOT, "work")

BUILD_TAGS = {
    # tag: (cargo profile, profile dir, extra cargo args)
    "opt": ("release", "release", []),
    "chk": ("chk", "chk", []),
    "opt-nopf": ("release", "release", ["--no-default-features"]),
    "chk-nopf": ("chk", "chk", ["--no-default-features"]),
}


class ToolError(Exception):
    pass


def log(msg):
    print(msg, flush=True)


def cargo_env():
    env = dict(os.environ)
    env["CARGO_NET_OFFLINE"] = "true"
    # leave TLC some cores; cargo is never run concurrently with TLC by this runner
    return env


def build(tag):
    """(re)build the harness for a build tag from /repo's current working tree"""
    profile, pdir, extra = BUILD_TAGS[tag]
    tdir = os.path.join(HARNESS, "target-" + tag)
    cmd = ["cargo", "build", "--offline", "--profile", profile, "--target-dir", tdir] + extra
    t0 = time.time()
    p = subprocess.run(cmd, cwd=HARNESS, env=cargo_env(), stdout=subprocess.PIPE, stderr=subprocess.STDOUT, text=True)
    if p.returncode != 0:
        tail = "\n".join(p.stdout.splitlines()[-40:])
        raise ToolError("cargo build failed for tag %s:\n%s" % (tag, tail))
    binp = os.path.join(tdir, pdir, "qwt-drive")
    if not os.path.exists(binp):
        raise ToolError("harness binary missing: " + binp)
    return binp, time.time() - t0


def write_ndjson(path, events):
    with open(path, "w") as f:
        for e in events:
            f.write(json.dumps(e, separators=(",", ":")))
            f.write("\n")


def read_ndjson(path):
    out = []
    with open(path) as f:
        for line in f:
            line = line.strip()
            if line:
                out.append(json.loads(line))
    return out


def run_harness(binp, tag, beh_path, trace_path, timeout=3600):
    """executes a behaviour file; a call that kills the process becomes a `crash`
    event and execution resumes at the next episode (`reset` line)"""
    wal = trace_path + ".wal"
    errlog = trace_path + ".stderr"
    start = 0
    crashes = 0
    beh_lines = None
    if os.path.exists(trace_path):
        os.remove(trace_path)
    while True:
        cmd = [binp, "replay", beh_path, trace_path, "--wal", wal, "--tag", tag, "--start", str(start)]
        hang = False
        with open(errlog, "ab") as ef:
            try:
                p = subprocess.run(cmd, stdout=subprocess.DEVNULL, stderr=ef, timeout=timeout)
                rc = p.returncode
            except subprocess.TimeoutExpired:
                hang = True
                rc = -999
        if rc == 0:
            return crashes
        if rc == 2:
            raise ToolError("harness rejected the behaviour file %s" % beh_path)
        if rc > 0 and not hang:
            raise ToolError("harness exited with status %d (see %s)" % (rc, errlog))
        # killed by a signal, or hung: find the call that was running
        try:
            with open(wal) as f:
                cur = f.read().split()[0]
        except Exception:
            raise ToolError("harness died without a write-ahead record")
        if cur == "done":
            return crashes
        n = int(cur)
        if beh_lines is None:
            with open(beh_path) as f:
                beh_lines = f.read().splitlines()
        ev = json.loads(beh_lines[n])
        # the trace holds the complete lines before the crashing call (flushed before each call)
        lines = []
        if os.path.exists(trace_path):
            with open(trace_path) as f:
                for ln in f.read().splitlines():
                    try:
                        j = json.loads(ln)
                    except Exception:
                        break
                    if j.get("ln", -1) >= n:
                        break
                    lines.append(ln)
        crash = {"k": "crash", "ek": ev.get("k", ""), "m": ev.get("m", ev.get("kind", "")), "ln": n, "b": tag,
                 "sig": "hang" if hang else signal.Signals(-rc).name if -rc in [s.value for s in signal.Signals] else str(rc)}
        if "o" in ev:
            crash["o"] = ev["o"]
        lines.append(json.dumps(crash, separators=(",", ":")))
        with open(trace_path, "w") as f:
            f.write("\n".join(lines) + "\n")
        crashes += 1
        # resume at the next episode
        nxt = None
        for i in range(n + 1, len(beh_lines)):
            if beh_lines[i].startswith('{"k":"reset"'):
                nxt = i
                break
        if nxt is None or crashes > 200:
            return crashes
        start = nxt


# TLC's scratch directories go under work/ (not /tmp)
_TLC_TMP = os.path.join(WORK, "tmp")
os.makedirs(_TLC_TMP, exist_ok=True)
TLC_JAVA_OPTS = "-Xss1g -XX:+UseParallelGC -Djava.io.tmpdir=" + _TLC_TMP


def tlc_cmd(workers, cfg, module, metadir, extra=()):
    # -maxSetSize: inputs of more than 10^6 elements are enumerated as index sets by the specification
    return ["tlc", "-workers", str(workers), "-metadir", metadir, "-cleanup", "-noGenerateSpecTE", "-maxSetSize", "100000000",
            "-config", cfg] + list(extra) + [module]


def judge(trace_path, timeout=1800, heap="6g", cfg="TraceLib.cfg", module="TraceLib.tla"):
    """validates a trace against the Level-0 specification; returns dict"""
    metadir = trace_path + ".tlc"
    shutil.rmtree(metadir, ignore_errors=True)
    env = dict(os.environ)
    env["TRACE"] = trace_path
    env["JAVA_TOOL_OPTIONS"] = TLC_JAVA_OPTS + " -Xmx" + heap
    cmd = tlc_cmd(1, cfg, module, metadir)
    t0 = time.time()
    try:
        p = subprocess.run(cmd, cwd=SPEC, env=env, stdout=subprocess.PIPE, stderr=subprocess.STDOUT, text=True, timeout=timeout)
    except subprocess.TimeoutExpired:
        raise ToolError("TLC trace validation timed out on " + trace_path)
    finally:
        shutil.rmtree(metadir, ignore_errors=True)
    out = p.stdout
    with open(trace_path + ".tlc.log", "w") as f:
        f.write(out)
    res = {"mismatches": [], "toolerr": [], "summary": None, "wall": time.time() - t0, "states": 0, "transitions": 0, "fidelity": []}
    for line in out.splitlines():
        m = re.match(r'^<<"(MISMATCH|TOOLERR|SUMMARY|FIDELITY)", "(.*)">>$', line)
        if m:
            js = json.loads('"' + m.group(2) + '"')
            val = json.loads(js)
            if m.group(1) == "MISMATCH":
                res["mismatches"].append(val)
            elif m.group(1) == "TOOLERR":
                res["toolerr"].append(val)
            elif m.group(1) == "FIDELITY":
                res["fidelity"].append(val)
            else:
                res["summary"] = val
        m = re.match(r"^(\d+) states generated, (\d+) distinct states found", line)
        if m:
            res["transitions"] = int(m.group(1))
            res["states"] = int(m.group(2))
    if res["summary"] is None or "INCOMPLETE" in out or p.returncode != 0:
        tail = "\n".join(out.splitlines()[-30:])
        raise ToolError("TLC did not accept/complete the trace %s (rc=%d):\n%s" % (trace_path, p.returncode, tail))
    if res["toolerr"]:
        raise ToolError("specification flagged a generator/harness problem: %s" % json.dumps(res["toolerr"][:3]))
    return res


def run_mc(cfg, module, workers=8, timeout=1800, heap="8g", extra=(), expect_fail=False):
    """runs one TLC model-checking configuration of the design/spec level"""
    metadir = os.path.join(WORK, "mc_" + os.path.splitext(os.path.basename(cfg))[0])
    shutil.rmtree(metadir, ignore_errors=True)
    env = dict(os.environ)
    env["JAVA_TOOL_OPTIONS"] = TLC_JAVA_OPTS + " -Xmx" + heap
    cmd = tlc_cmd(workers, cfg, module, metadir, extra)
    t0 = time.time()
    try:
        p = subprocess.run(cmd, cwd=SPEC, env=env, stdout=subprocess.PIPE, stderr=subprocess.STDOUT, text=True, timeout=timeout)
    except subprocess.TimeoutExpired:
        raise ToolError("TLC timed out on " + cfg)
    finally:
        shutil.rmtree(metadir, ignore_errors=True)
    out = p.stdout
    with open(os.path.join(WORK, os.path.basename(cfg) + ".log"), "w") as f:
        f.write(out)
    res = {"cfg": cfg, "ok": False, "states": 0, "transitions": 0, "wall": time.time() - t0, "out": out}
    for line in out.splitlines():
        m = re.match(r"^(\d+) states generated, (\d+) distinct states found", line)
        if m:
            res["transitions"] = int(m.group(1))
            res["states"] = int(m.group(2))
    res["ok"] = ("Model checking completed. No error has been found." in out) and p.returncode == 0
    if not res["ok"] and not expect_fail:
        tail = "\n".join(out.splitlines()[-40:])
        raise ToolError("design-level TLC check %s failed (this is a model problem, not a verdict on the code):\n%s" % (cfg, tail))
    return res


OUTCOME_FIELDS = ("out", "outa", "outb", "chk", "out1", "out2", "outs", "seq", "ok", "eq", "len", "is_empty",
                  "sigma", "n_levels", "ones", "zeros", "zeros_trait", "same", "d", "rep", "kib", "mib", "gib")


def zip_traces(path_a, path_b, out_path, tagpair):
    """pairs the events of two traces of the same behaviour (two builds) into `xb` events
    carrying both outcome sets as canonical JSON strings"""
    a = {e["ln"]: e for e in read_ndjson(path_a) if "ln" in e}
    b = {e["ln"]: e for e in read_ndjson(path_b) if "ln" in e}
    kinds = {}
    out = []
    n = 0
    for ln in sorted(a.keys()):
        ea = a[ln]
        k = ea.get("k")
        if k == "reset":
            kinds = {}
            continue
        if k in ("newt", "newq", "newb"):
            kinds[ea["o"]] = (ea.get("kind", ""), ea.get("ty", ""))
        if k == "conv":
            kinds[ea["dst"]] = kinds.get(ea["src"], ("", ""))
        if ln not in b:
            continue
        eb = b[ln]
        if ea.get("k") == "crash" or eb.get("k") == "crash":
            xa = "crash" if ea.get("k") == "crash" else "ok"
            xb = "crash" if eb.get("k") == "crash" else "ok"
        else:
            xa = json.dumps({f: ea[f] for f in OUTCOME_FIELDS if f in ea}, sort_keys=True)
            xb = json.dumps({f: eb[f] for f in OUTCOME_FIELDS if f in eb}, sort_keys=True)
        oid = ea.get("o", ea.get("oa", ea.get("src", 0)))
        kind, ty = kinds.get(oid, ("", ""))
        out.append({"k": "xb", "ln": ln, "b": tagpair, "ek": k, "m": ea.get("m", ""), "kind": kind, "ty": ty, "x": xa, "y": xb})
        n += 1
    write_ndjson(out_path, out)
    return n


def autotrait_probe():
    """compiles the auto-trait probe crate against /repo (C18): every public structure must be Send + Sync"""
    pdir = os.path.join(ROOT, "probe")
    cmd = ["cargo", "check", "--offline", "--target-dir", os.path.join(pdir, "target-probe")]
    p = subprocess.run(cmd, cwd=pdir, env=cargo_env(), stdout=subprocess.PIPE, stderr=subprocess.STDOUT, text=True)
    if p.returncode == 0:
        return True, "auto-trait probe compiled: all listed public types are Send + Sync"
    txt = p.stdout
    if "cannot be sent between threads safely" in txt or "cannot be shared between threads safely" in txt:
        lines = [l for l in txt.splitlines() if "cannot be s" in l or "within `" in l or "required by" in l]
        return False, "\n".join(lines[:30])
    raise ToolError("auto-trait probe failed to build for another reason:\n" + "\n".join(txt.splitlines()[-30:]))


def tlc_generated(spec, tier, stats):
    """returns a generator function producing the behaviours enumerated by a TLC Gen_* configuration"""
    from . import tlcgen
    return lambda rnd, tier2: tlcgen.generate(spec, tier2, rnd, stats)


def apalache(module, obligations, timeout=900):
    """discharges inductive-invariant obligations with Apalache (unbounded integers); returns list of dicts"""
    adir = os.path.join(SPEC, "apalache")
    out = []
    for name, args in obligations:
        cmd = ["apalache-mc", "check"] + args + ["--out-dir=" + os.path.join(WORK, "apalache-out"), module]
        t0 = time.time()
        try:
            p = subprocess.run(cmd, cwd=adir, stdout=subprocess.PIPE, stderr=subprocess.STDOUT, text=True, timeout=timeout)
            ok = "The outcome is: NoError" in p.stdout and p.returncode == 0
        except subprocess.TimeoutExpired:
            ok = False
        out.append({"obligation": name, "args": " ".join(args), "discharged": ok, "wall_s": round(time.time() - t0, 1)})
    shutil.rmtree(os.path.join(WORK, "apalache-out"), ignore_errors=True)
    return out


def tlaps(module, timeout=900):
    """checks a TLAPS proof; returns dict with the number of obligations and whether all were proved"""
    tdir = os.path.join(SPEC, "tlaps")
    t0 = time.time()
    try:
        p = subprocess.run(["tlapm", "--threads", "6", "--cleanfp", module], cwd=tdir, stdout=subprocess.PIPE, stderr=subprocess.STDOUT, text=True, timeout=timeout)
        out = p.stdout
    except subprocess.TimeoutExpired:
        out = ""
    shutil.rmtree(os.path.join(tdir, ".tlacache"), ignore_errors=True)
    m = re.search(r"All (\d+) obligations? proved", out)
    return {"module": module, "obligations": int(m.group(1)) if m else 0, "all_proved": bool(m), "wall_s": round(time.time() - t0, 1)}
