"""Campaign generators: seeded families of behaviours per property.

Every generator takes (rnd, tier) and returns a Beh.  Inputs follow DESIGN.md
Appendix D: boundary lengths derived from the real constants, alphabet shapes,
frequency profiles, argument sets {0, 1, boundaries +-1, n-1, n, n+1, HUGE}.
"""
import itertools
import random

from .beh import *

# ------------------------------------------------------------------ inputs


def tmax(ty):
    return (1 << TY_BITS[ty]) - 1


def rand_seq(rnd, n, alphabet):
    return [rnd.choice(alphabet) for _ in range(n)]


def skewed_seq(rnd, n, alphabet, ratio=2.0):
    w = [ratio ** (-i) for i in range(len(alphabet))]
    return rnd.choices(alphabet, weights=w, k=n)


def fib_weights(d):
    a, b = 1, 1
    out = []
    for _ in range(d):
        out.append(a)
        a, b = b, a + b
    return out


def weights_seq(rnd, alphabet, weights, shuffle=True):
    vals = []
    for a, w in zip(alphabet, weights):
        vals += [a] * w
    if shuffle:
        rnd.shuffle(vals)
    return vals


def tree_input_shapes(rnd, tier, ty):
    """list of (name, Seqn) for one carrier type"""
    T = tmax(ty)
    bits = TY_BITS[ty]
    out = []
    out.append(("empty", Seqn.from_values([])))
    out.append(("one_zero", Seqn.from_values([0])))
    out.append(("one_elem", Seqn.from_values([min(T, 5)])))
    out.append(("single_symbol0", Seqn.from_runs([([0], rnd.choice([2, 7, 300]))])))
    out.append(("single_symbol", Seqn.from_runs([([min(T, rnd.choice([1, 3, 9, 200]))], rnd.choice([1, 5, 257]))])))
    out.append(("two_symbols", Seqn.from_values(rand_seq(rnd, rnd.choice([2, 9, 130]), [0, 1]))))
    # alphabet sizes: powers of 4 and neighbours
    maxes = [1, 2, 3, 4, 5, 15, 16, 17, 63, 64, 65, 255]
    if bits > 8:
        maxes += [256, 257, 1023, 1024, 4095, 4096, 65535]
    if bits > 16:
        maxes += [65536, 65537, (1 << 20) + 3]
    pick = maxes if tier == "thorough" else rnd.sample(maxes, 6)
    for m in pick:
        n = rnd.choice([17, 60, 200, 300])
        alph = list(range(m + 1)) if m <= 64 else sorted(set([0, m] + [rnd.randrange(m + 1) for _ in range(40)]))
        vals = rand_seq(rnd, n, alph) + [m]
        rnd.shuffle(vals)
        out.append(("max%d" % m, Seqn.from_values(vals)))
    # holes
    out.append(("holes_a", Seqn.from_values(rand_seq(rnd, 80, [0, 5, min(T, 250)]))))
    out.append(("holes_b", Seqn.from_values(rand_seq(rnd, 90, [0, 15, 16, 63]))))
    out.append(("no_zero", Seqn.from_values(rand_seq(rnd, 70, [3, 4, 9]))))
    # values near powers of two of the carrier, and the carrier maximum
    ks = [k for k in (8, 16, 31, 32, 33, 48, 63, 64, 65, 100, 127, 128) if k <= bits]
    pick = ks if tier == "thorough" else rnd.sample(ks, min(3, len(ks)))
    for k in pick:
        hi = (1 << k) - 1
        alph = sorted(set([0, 1, hi, hi // 2 + 1, max(0, hi - 1), hi // 3]))
        out.append(("pow2_%d" % k, Seqn.from_values(rand_seq(rnd, rnd.choice([9, 40, 150]), alph) + [hi])))
    out.append(("type_max", Seqn.from_values(rand_seq(rnd, 33, [0, T, T - 1, T // 2 + 1]) + [T])))
    # boundary lengths of the quad/bit rank-select blocks
    lens = [255, 256, 257, 511, 512, 513, 2047, 2048, 2049, 4095, 4096, 4097]
    pick = lens if tier == "thorough" else rnd.sample(lens, 3)
    for n in pick:
        sig = rnd.choice([3, 7, 20])
        out.append(("len%d" % n, Seqn.from_values(rand_seq(rnd, n, list(range(min(sig, T) + 1))))))
    # long: several prefetch sampling periods, >= 3 levels, frequent symbols beyond one select sample
    nlong = 3 * 2048 + rnd.choice([1, 77, 2047]) if tier == "quick" else 5 * 8192 + rnd.choice([1, 513])
    sig = min(T, rnd.choice([63, 200]))
    out.append(("long_rand", Seqn.from_values(rand_seq(rnd, nlong, list(range(sig + 1))))))
    a, b2, c = 1, min(T, 37), min(T, 64)
    reps = 9000 if tier == "quick" else 20000
    out.append(("long_periodic", Seqn.from_runs([([a, b2], reps), ([c, a, a], 700), ([b2], 8193), ([0, c], 50)])))
    out.append(("long_skewed", Seqn.from_values(skewed_seq(rnd, 9000, list(range(min(T, 40) + 1)), 1.5))))
    # a symbol with exactly 8192*m occurrences, then whole superblocks without it, then a few more
    # (select samples: the (8192*m)-th occurrence is the last one before a long gap)
    for m in ([1] if tier == "quick" else [1, 2]):
        xa, xb, xc = min(T, 1), min(T, 4), min(T, 13)
        gap = rnd.choice([9000, 13000]) if tier == "quick" else 40000
        out.append(("occ_gap%d" % m, Seqn.from_runs([([xa], 8192 * m), ([xb, 8 % (T + 1)], gap // 2), ([xa], 3), ([xc], 5)])))
        out.append(("occ_exact%d" % m, Seqn.from_runs([([xa, xb], 4096 * m), ([xb], 700), ([xa], 4096 * m), ([xc, xb], 2100)])))
    # the 8192-th occurrence of a bit / quad digit falls in the last data line of a level and a few more follow
    for (x, y) in ((0, min(T, 1)), (min(T, 5), min(T, 37))):
        r, k = rnd.choice([100, 300]), rnd.choice([1, 30, 50])
        out.append(("cross8192_%d_%d" % (x, y), Seqn.from_runs([([x], r), ([y], 8192 + k)])))
        out.append(("cross8192r_%d_%d" % (x, y), Seqn.from_runs([([y], r), ([x], 8192 + k)])))
    # a select sample taken on the last slot of a superblock of a level, then a long absence of the digit
    for sb in (2048, 4096):
        x, y = min(T, 1), min(T, 2)
        m = 8192 // sb + rnd.choice([2, 3])
        out.append(("sample_sb_end%d" % sb, Seqn.from_runs([([x], 8192), ([y], m * sb - 1 - 8192), ([x], 1), ([y], sb * rnd.choice([40, 70])), ([x], 3), ([y], 10)])))
    # levels whose length is an exact multiple of the prefetch sampling period, at least two levels
    for n in (2048, 4096) if tier == "quick" else (2048, 4096, 6144, 8192):
        out.append(("pfs_len%d" % n, Seqn.from_values(rand_seq(rnd, n, list(range(min(T, 20) + 1))))))
    if tier == "thorough":
        out.append(("huge_runs", Seqn.from_runs([([0], 300000), ([min(T, 77)], 1), ([1, 2, 3], 100000), ([min(T, 255)], 65537)])))
    return out


def dyadic_tree(rnd, k, depth, nsym_max):
    """leaf depths of a random full k-ary tree with at least two branches reaching `depth`;
    a leaf at depth d gets weight k^(depth-d), so the optimal code lengths are exactly the depths"""
    leaves = []

    def grow(d, must):
        if d == depth:
            leaves.append(d)
            return
        if not must and (rnd.random() < 0.75 or len(leaves) > nsym_max):
            leaves.append(d)
            return
        kids = [False] * k
        if must:
            kids[rnd.randrange(k)] = True
        order = list(range(k))
        rnd.shuffle(order)
        for i in order:
            grow(d + 1, kids[i])

    # two forced deep branches below different children of the root
    forced = rnd.sample(range(k), 2)
    for i in range(k):
        grow(1, i in forced)
    return leaves


def dyadic_seq(rnd, k, depth, T):
    depths = dyadic_tree(rnd, k, depth, 40)
    syms = rnd.sample(range(0, min(T, 250) + 1), len(depths)) if len(depths) <= min(T, 250) + 1 else list(range(len(depths)))
    runs = [([sy], k ** (depth - d)) for sy, d in zip(syms, depths)]
    rnd.shuffle(runs)
    return Seqn.from_runs(runs)


def huff_input_shapes(rnd, tier, ty, binary=False, deep=False):
    """frequency profiles for Huffman-shaped trees"""
    T = tmax(ty)
    out = []
    if deep:
        # code lengths beyond 16 bits (more than 8 quad levels / 16 binary levels)
        if binary:
            for L in ([17] if tier == "quick" else [17, 18, 20]):
                out.append(("dyadic_deep%d" % L, dyadic_seq(rnd, 2, L, T)))
        else:
            for L in ([9] if tier == "quick" else [9, 10]):
                out.append(("dyadic_deep%d" % L, dyadic_seq(rnd, 4, L, T)))
    out.append(("empty", Seqn.from_values([])))
    out.append(("one_elem", Seqn.from_values([min(T, 3)])))
    out.append(("single_symbol", Seqn.from_runs([([min(T, rnd.choice([0, 2, 9]))], rnd.choice([1, 4, 300]))])))
    # uniform with alphabet sizes covering d mod 3 (incomplete 4-ary trees)
    ds = list(range(2, 12)) + [16, 17, 18, 64, 65, 66]
    pick = ds if tier == "thorough" else rnd.sample(ds, 6)
    for d in pick:
        alph = [min(T, x) for x in rnd.sample(range(0, min(T, 250) + 1), min(d, min(T, 250) + 1))]
        vals = alph * rnd.choice([1, 2, 5])
        rnd.shuffle(vals)
        out.append(("uniform%d" % d, Seqn.from_values(vals)))
    # two-level, geometric, fibonacci
    for ratio in ([2, 3, 4] if tier == "thorough" else [rnd.choice([2, 3, 4])]):
        d = rnd.choice([5, 8, 11])
        alph = list(range(d))
        w = [max(1, int(ratio ** (d - 1 - i))) if ratio ** (d - 1) < 20000 else max(1, int(ratio ** min(d - 1 - i, 8))) for i in range(d)]
        out.append(("geometric%d_%d" % (ratio, d), Seqn.from_values(weights_seq(rnd, alph, w))))
    depth = (14 if binary else 16) if tier == "quick" else (22 if binary else 24)
    fw = fib_weights(depth)
    alph = [min(T, x) for x in range(depth)] if T >= depth else list(range(T + 1))
    fw = fw[:len(alph)]
    out.append(("fibonacci%d" % len(alph), Seqn.from_values(weights_seq(rnd, alph, fw))))
    out.append(("two_level", Seqn.from_values(weights_seq(rnd, list(range(9)), [50, 50, 50, 1, 1, 1, 1, 1, 1]))))
    # code lengths with a gap: dominant symbols one level below the root, all the rare ones three
    # (quad) / four (binary) levels further down, no code of the lengths in between
    for ndom in (1, 2):
        nrare = (48 if ndom == 1 else 32) if not binary else 8
        if T >= ndom + nrare - 1:
            ids = rnd.sample(range(0, min(T, 250) + 1), ndom + nrare)
            w = [40 * nrare] * ndom + [1] * nrare
            if ndom == 2:
                w[1] = 30 * nrare
            out.append(("gap_dom%d" % ndom, Seqn.from_values(weights_seq(rnd, ids, w))))
    # the 8192-th occurrence of a symbol (bit, quad digit) in the last data line of a level, a few more after it
    r, k = rnd.choice([100, 300]), rnd.choice([1, 30, 50])
    out.append(("cross8192", Seqn.from_runs([([min(T, 2)], r), ([min(T, 7)], 8192 + k)])))
    out.append(("holes", Seqn.from_values(weights_seq(rnd, [0, 7, min(T, 200), min(T, 255)], [9, 3, 3, 1]))))
    if T >= (1 << 21):
        # symbol values above 2^16: the code of a symbol must not depend on its numeric value
        hv = [(1 << 18) + 1000, 5, 300, (1 << 17) + 9, 1 << 16, (1 << 20) + 1, 70000, 65535]
        out.append(("high_values_dom", Seqn.from_values(weights_seq(rnd, hv, [400, 9, 8, 7, 6, 5, 4, 3]))))
        hv2 = list(hv)
        rnd.shuffle(hv2)
        out.append(("high_values_mix", Seqn.from_values(weights_seq(rnd, hv2, [60, 30, 30, 14, 7, 3, 2, 1]))))
    big = min(T, rnd.choice([1000, 5000])) if ty != "u8" else 255
    alph = sorted(set(rnd.randrange(big + 1) for _ in range(60)))
    out.append(("big_values", Seqn.from_values(skewed_seq(rnd, 600, alph, 1.2) + alph)))
    # a symbol with exactly 8192 occurrences (the last one is the 8192-th at its levels), a long gap, then others
    out.append(("occ_exact8192", Seqn.from_runs([([min(T, 7)], 8192), ([min(T, 2), min(T, 9)], 5000), ([min(T, 3)], 1200), ([min(T, 9)], 16384 - 5000)])))
    for n in (2048, 4096):
        out.append(("pfs_len%d" % n, Seqn.from_values(skewed_seq(rnd, n, list(range(min(T, 12) + 1)), 1.4))))
    nlong = 3 * 2048 + 99 if tier == "quick" else 40000
    out.append(("long_skewed", Seqn.from_values(skewed_seq(rnd, nlong, list(range(min(T, 30) + 1)), 1.3))))
    out.append(("long_uniform", Seqn.from_values(rand_seq(rnd, nlong, list(range(min(T, 70) + 1))))))
    return out


def query_symbols(rnd, s, ty, k=4):
    """symbols to query: used ones (min, max, frequent, rare, random), absent below max,
    just above max, far above"""
    T = tmax(ty)
    used = s.used_values()
    cs = []
    if used:
        cs += [used[0], used[-1]]
        cs += rnd.sample(used, min(k, len(used)))
        mx = used[-1]
        absent = [v for v in range(0, min(mx, 70)) if v not in set(used)]
        cs += absent[:2]
        if mx > 70:
            cand = rnd.randrange(mx)
            if cand not in set(used):
                cs.append(cand)
        cs += [mx + 1, mx + 2, mx + 4]
    else:
        cs += [0, 1, 3]
    cs += [T, T - 1, T // 2 + 1]
    if T > (1 << 64):
        # wider than a machine word: symbols whose low 64 (32) bits equal a present / absent symbol
        base = used[:1] + used[-1:] if used else [0]
        cs += [(1 << 64) + v for v in base] + [(1 << 64), (1 << 100) + (base[0] if base else 0)]
    if T > (1 << 32):
        cs += [(1 << 32) + (used[0] if used else 0)]
    out = []
    seen = set()
    for c in cs:
        if 0 <= c <= T and c not in seen:
            seen.add(c)
            out.append(c)
    return out


def tree_queries(b, o, s, ty, rnd, what=("meta", "get", "rank", "select"), nrand=20, huge=(-1, -2), all_small=True):
    """absolute observations of one tree"""
    n = len(s)
    vals = None
    if "meta" in what:
        b.meta(o)
    pos = position_args(n, extra=s.boundaries(), rnd=rnd, k=nrand, huge=huge)
    if all_small and n <= 64:
        pos = clip_args(list(range(0, n + 3)) + list(huge))
    if "get" in what:
        b.qg(o, "get", [], pos)
    cs = query_symbols(rnd, s, ty)
    if "rank" in what:
        b.qg(o, "rank", [sym(c) for c in cs], pos)
    if "rank_prefetch" in what:
        b.qg(o, "rank_prefetch", [sym(c) for c in cs], pos)
    if "select" in what:
        vals = s.values()
        cnt = {}
        for v in vals:
            cnt[v] = cnt.get(v, 0) + 1
        for c in cs:
            b.qg(o, "select", [sym(c)], occ_args(cnt.get(c, 0), rnd=rnd, k=6, huge=huge[:1]))
    return cs, pos


def rotate(items, rnd):
    items = list(items)
    rnd.shuffle(items)
    return itertools.cycle(items)


# ------------------------------------------------------------------ C01 / C02 / C03


def small_exhaustive(b, rnd, tier, kinds, huff):
    """every sequence up to a small length over a small alphabet, with complete query grids:
    the same space the Level-1 wavelet-matrix models cover, replayed on the real trees"""
    maxlen, alph = (3, [0, 1, 2, 3, 4]) if tier == "quick" else (4, [0, 1, 2, 3, 4, 5])
    kk = rotate(kinds, rnd)
    tt = rotate(UTYPES, rnd)
    for L in range(0, maxlen + 1):
        for vals in itertools.product(alph, repeat=L):
            s = Seqn.from_values(list(vals))
            b.reset()
            ty = next(tt)
            o = b.newt(next(kk), ty, rnd.choice(["new", "from_vec", "collect"]), s,
                       tie=(rnd.choice([None, {"mode": "asc"}, {"mode": "desc"}, {"mode": "seed", "seed": rnd.randrange(1 << 20)}]) if huff else None))
            pos = list(range(0, L + 2)) + [-1]
            cs = [sym(c) for c in range(0, max(alph) + 3)]
            b.meta(o)
            b.qg(o, "get", [], pos)
            b.qg(o, "rank", cs, pos)
            b.qg(o, "select", cs, list(range(0, L + 2)) + [-1])


def camp_tree_plain(rnd, tier, kinds=QUAD_PLAIN):
    b = Beh()
    small_exhaustive(b, rnd, tier, kinds, False)
    types = UTYPES if tier == "thorough" else rnd.sample(UTYPES, 3) + ["u128"]
    paths = rotate(["new", "from_vec", "collect"], rnd)
    kk = rotate(kinds, rnd)
    for ty in types:
        for name, s in tree_input_shapes(rnd, tier, ty):
            ks = kinds if tier == "thorough" and len(s) < 5000 else [next(kk)]
            if len(ks) == 1 and len(s) >= 4096 and len(kinds) > 1:
                ks.append(next(kk))     # long inputs on both block sizes (consecutive kinds alternate 256 / 512)
            for kind in ks:
                b.reset()
                o = b.newt(kind, ty, next(paths), s)
                tree_queries(b, o, s, ty, rnd)
    b.reset()
    for kind in kinds:
        o = b.newt(kind, rnd.choice(UTYPES), "default", Seqn.from_values([]))
        tree_queries(b, o, Seqn.from_values([]), "u8", rnd)
    return b


def tie_modes(rnd, tier, used):
    modes = [None, {"mode": "asc"}, {"mode": "desc"}, {"mode": "seed", "seed": rnd.randrange(1 << 30)}]
    if tier == "thorough":
        modes += [{"mode": "seed", "seed": rnd.randrange(1 << 30)} for _ in range(3)]
    if len(used) <= 4 and all(u < (1 << 30) for u in used):
        modes += [{"mode": "order", "order": list(p)} for p in itertools.permutations(used)][: (24 if tier == "thorough" else 6)]
    return modes


def camp_tree_huff(rnd, tier, kinds=QUAD_HUFF, binary=False):
    b = Beh()
    small_exhaustive(b, rnd, tier, kinds, True)
    types = UTYPES if tier == "thorough" else rnd.sample(UTYPES, 2) + ["u8"]
    if not any(TY_BITS[t] >= 32 for t in types):
        types[0] = rnd.choice(["u32", "u64", "usize", "u128"])   # always one carrier with symbol values above 2^16
    paths = rotate(["new", "from_vec", "collect"], rnd)
    kk = rotate(kinds, rnd)
    deep_ty = rnd.choice(types)
    for ty in types:
        for name, s in huff_input_shapes(rnd, tier, ty, binary, deep=(ty == deep_ty or tier == "thorough")):
            modes = tie_modes(rnd, tier, s.used_values())
            if tier == "quick" and len(s) > 2000:
                modes = modes[:2]
            for tie in modes:
                b.reset()
                o = b.newt(next(kk), ty, next(paths), s, tie=tie)
                tree_queries(b, o, s, ty, rnd, nrand=10)
    b.reset()
    for kind in kinds:
        o = b.newt(kind, rnd.choice(UTYPES), "default", Seqn.from_values([]))
        tree_queries(b, o, Seqn.from_values([]), "u8", rnd)
    return b


def camp_c01(rnd, tier):
    b = camp_tree_plain(rnd, tier, QUAD_PLAIN)
    # more than 2^27 symbols: more than 65 536 superblocks per level
    long_quads(b, rnd, [rnd.choice(["QWT256", "QWT256Pfs"])] if tier == "quick" else ["QWT256Pfs", "QWT512"])
    return b


def camp_c02(rnd, tier):
    return camp_tree_huff(rnd, tier, QUAD_HUFF)


def camp_c03(rnd, tier):
    b = camp_tree_plain(rnd, tier, ["WT"])
    b2 = camp_tree_huff(rnd, tier, ["HWT"], binary=True)
    b.ev += b2.ev
    return b


# ------------------------------------------------------------------ C05 quad vectors


def quad_input_shapes(rnd, tier):
    out = [("empty", Seqn.from_values([])), ("one", Seqn.from_values([rnd.randrange(4)]))]
    lens = [127, 128, 129, 255, 256, 257, 511, 512, 513, 1023, 2047, 2048, 2049, 4095, 4096, 4097, 8191, 8192, 8193]
    pick = lens if tier == "thorough" else rnd.sample(lens, 6)
    for n in pick:
        kind = rnd.choice(["rand", "const", "periodic", "runs"])
        if kind == "rand":
            s = Seqn.from_values(rand_seq(rnd, n, [0, 1, 2, 3]))
        elif kind == "const":
            s = Seqn.from_runs([([rnd.randrange(4)], n)])
        elif kind == "periodic":
            p = rand_seq(rnd, rnd.choice([2, 3, 5, 7]), [0, 1, 2, 3])
            s = Seqn.from_runs([(p, n // len(p)), (p[: n % len(p)], 1)])
        else:
            a = rnd.randrange(1, n)
            s = Seqn.from_runs([([rnd.randrange(4)], a), ([rnd.randrange(4)], n - a)])
        out.append(("len%d_%s" % (n, kind), s))
    # occurrence counts around the select sampling period 8192, several superblocks
    for c in ([8191, 8192, 8193, 16384, 16385] if tier == "thorough" else [rnd.choice([8191, 8192, 8193]), 16385]):
        x = rnd.randrange(4)
        y = (x + 1 + rnd.randrange(3)) % 4
        out.append(("occ%d" % c, Seqn.from_runs([([x, y], c // 2), ([y], 300), ([x], c - c // 2), ([y, y, x], 11)])))
    # exactly 8192*m occurrences followed by whole superblocks without the symbol
    for m in ([1] if tier == "quick" else [1, 2, 3]):
        x = rnd.randrange(4)
        y = (x + 1) % 4
        z = (x + 2) % 4
        out.append(("occ_gap%d" % m, Seqn.from_runs([([x], 8192 * m), ([y, z], rnd.choice([5000, 9000])), ([x], 2), ([z], 40)])))
        out.append(("occ_gap_only%d" % m, Seqn.from_runs([([y], 100), ([x], 8192 * m), ([y, z, z], 4000)])))
    # the (8192 j + 1)-th occurrence of a symbol - the one a select sample is taken at - sits on the last
    # slot of a superblock (2048 / 4096 symbols) and the symbol is then absent from many superblocks
    for sb in (2048, 4096):
        for j in ([1] if tier == "quick" else [1, 2]):
            x = rnd.randrange(4)
            y = (x + 1 + rnd.randrange(3)) % 4
            m = (8192 * j) // sb + rnd.choice([2, 3])
            gap = m * sb - 1 - 8192 * j
            far = sb * rnd.choice([40, 70])
            out.append(("sample_sb_end%d_%d" % (sb, j), Seqn.from_runs([([x], 8192 * j), ([y], gap), ([x], 1), ([y], far), ([x], 3), ([y], 10)])))
    # one rare symbol among many; searched symbol absent from whole superblocks
    big = 40000 if tier == "quick" else 1200000
    r = rnd.randrange(4)
    o = (r + 1) % 4
    out.append(("rare", Seqn.from_runs([([o], big // 2), ([r], 1), ([o, (o + 1) % 4 if (o + 1) % 4 != r else (o + 2) % 4], big // 4), ([r], 2)])))
    out.append(("long_runs", Seqn.from_runs([([0], 5000), ([1], 4097), ([2], 8192), ([3], 2049), ([0, 3], 600)])))
    out.append(("long_rand", Seqn.from_values(rand_seq(rnd, 9000 if tier == "quick" else 70000, [0, 1, 2, 3]))))
    return out


def quad_queries(b, o, s, rnd, rs=True, huge=(-1, -2), syms=(0, 1, 2, 3, 4, 5, 255)):
    n = len(s)
    b.meta(o)
    pos = position_args(n, extra=s.boundaries(), rnd=rnd, k=20, huge=huge)
    if n <= 64:
        pos = clip_args(list(range(0, n + 3)) + list(huge))
    b.qg(o, "get", [], pos)
    if not rs:
        return
    b.qg(o, "rank", list(syms), pos)
    vals = s.values()
    for c in syms:
        cnt = sum(1 for v in vals if v == c)
        b.qg(o, "select", [c], occ_args(cnt, rnd=rnd, k=8, huge=huge[:1]))
    b.qg(o, "occs", list(syms), [0])
    b.qg(o, "occs_smaller", list(syms), [0])
    # the block-level rank used by the prefetching rank of the trees (unsafe: legal arguments only)
    b.qg(o, "rank_block_unchecked", [0, 1, 2, 3], [p for p in pos if 0 <= p <= n])
    # prefetch hints accept any position
    b.qg(o, "prefetch_info", [], pos + [n + 5000, 1 << 30])
    b.qg(o, "prefetch_data", [], pos + [n + 5000, 1 << 30])


def camp_c05(rnd, tier):
    b = Beh()
    paths = rotate([("new", "u8"), ("new", "u64"), ("from_qv", "u16"), ("collect", "u32"), ("collect", "i64"), ("new", "u128"), ("collect", "usize")], rnd)
    for name, s in quad_input_shapes(rnd, tier):
        for kind in ["RSQ256", "RSQ512"]:
            b.reset()
            path, ty = next(paths)
            o = b.newq(kind, ty, path, s)
            quad_queries(b, o, s, rnd)
    b.reset()
    for kind in ["RSQ256", "RSQ512"]:
        o = b.newq(kind, "u8", "default", Seqn.from_values([]))
        quad_queries(b, o, Seqn.from_values([]), rnd)
    # more than 2^27 symbols: more than 65 536 superblocks
    long_quads(b, rnd, ["RSQ256"] if tier == "quick" else ["RSQ256", "RSQ512", "QV"])
    return b


# ------------------------------------------------------------------ C06 / C07 bit structures


def bit_input_shapes(rnd, tier):
    out = [("empty", Seqn.from_values([])), ("one0", Seqn.from_values([0])), ("one1", Seqn.from_values([1]))]
    lens = [63, 64, 65, 127, 128, 511, 512, 513, 1023, 1024, 4095, 4096, 4097, 8191, 8192, 32767, 32768, 32769, 65536]
    pick = lens if tier == "thorough" else rnd.sample(lens, 7)
    for n in pick:
        kind = rnd.choice(["rand", "zeros", "ones", "sparse", "dense", "runs"])
        if kind == "rand":
            s = Seqn.from_values(rand_seq(rnd, n, [0, 1]))
        elif kind == "zeros":
            s = Seqn.from_runs([([0], n)])
        elif kind == "ones":
            s = Seqn.from_runs([([1], n)])
        elif kind == "sparse":
            s = Seqn.from_values([1 if rnd.random() < 0.02 else 0 for _ in range(n)])
        elif kind == "dense":
            s = Seqn.from_values([0 if rnd.random() < 0.02 else 1 for _ in range(n)])
        else:
            a = rnd.randrange(1, n)
            s = Seqn.from_runs([([rnd.randrange(2)], a), ([rnd.randrange(2)], n - a)])
        out.append(("len%d_%s" % (n, kind), s))
    # counts of ones / zeros crossing the hint periods 1024 (narrow) and 8192 (wide)
    for c in ([1023, 1024, 1025, 2048, 8191, 8192, 8193, 16385] if tier == "thorough" else [rnd.choice([1023, 1024, 1025]), rnd.choice([8191, 8192, 8193])]):
        out.append(("ones%d" % c, Seqn.from_runs([([1, 0, 0], c // 2), ([0], 700), ([1], c - c // 2), ([0, 1, 1], 5)])))
        out.append(("zeros%d" % c, Seqn.from_runs([([0, 1], c // 2), ([1], 900), ([0], c - c // 2), ([1, 0, 0], 7)])))
    # the P-th one (zero) falls in the last word / at a line boundary, followed by a few more
    for P in (1024, 8192):
        lines = [3, 17] if P == 1024 else [17, 33]
        combos = [(L, d, k) for L in lines for d in (0, 1, 63, 64, 449) for k in (0, 1, 2, 40, 70)]
        for (L, d, k) in (combos if tier == "thorough" else rnd.sample(combos, 4)):
            n = 512 * L - d
            if n - P - k <= 0:
                continue
            for bit in (1, 0):
                out.append(("hint%d_%d_%d_%d_%d" % (P, L, d, k, bit), Seqn.from_runs([([1 - bit], n - P - k), ([bit], P + k)])))
    for n in (512, 1024) if tier == "quick" else (512, 1024, 1536, 4096, 8192):
        out.append(("mult512_%d" % n, Seqn.from_values(rand_seq(rnd, n, [0, 1]))))
    big = 70000 if tier == "quick" else 1500000
    out.append(("long_rand", Seqn.from_values(rand_seq(rnd, 20000 if tier == "quick" else 200000, [0, 1]))))
    out.append(("long_runs", Seqn.from_runs([([0], big // 2), ([1], 3), ([0], 4096), ([1], big // 3), ([0, 1], 500)])))
    return out


def bit_rs_queries(b, o, s, rnd, huge=(-1, -2), rank=True, select0=True):
    n = len(s)
    b.meta(o)
    pos = position_args(n, extra=s.boundaries(), rnd=rnd, k=30, huge=huge)
    if rank:
        # RSWide's prefetch hints (not offered by RSNarrow: the harness answers "not applicable")
        b.qg(o, "prefetch_info", [], pos[:8] + list(huge))
        b.qg(o, "prefetch_data", [], pos[:8] + list(huge))
    if n <= 64:
        pos = clip_args(list(range(0, n + 3)) + list(huge))
    b.qg(o, "get", [], pos)
    if rank:
        b.qg(o, "rank1", [], pos)
        b.qg(o, "rank0", [], pos)
    vals = s.values()
    ones = sum(vals)
    b.qg(o, "select1", [], occ_args(ones, rnd=rnd, k=20, huge=huge[:1]))
    if select0:
        b.qg(o, "select0", [], occ_args(n - ones, rnd=rnd, k=20, huge=huge[:1]))


def camp_c06(rnd, tier):
    b = Beh()
    for name, s in bit_input_shapes(rnd, tier):
        for kind in ["RSN", "RSW"]:
            b.reset()
            o = b.newb(kind, rnd.choice(["new", "from"]), s)
            bit_rs_queries(b, o, s, rnd)
    # indexes built on bit vectors that have a history: collected from positions that repeat, edited at
    # the very end with set_bits, grown on a line boundary - the index must describe the bits, whatever
    # the vector's cached counters say
    for rep in range(2 if tier == "quick" else 8):
        n = rnd.choice([70, 600, 1030])
        bits = rand_seq(rnd, n - 1, [0, 1]) + [1]
        ones_at = [i for i, v in enumerate(bits) if v == 1]
        lst = ones_at + [rnd.choice(ones_at) for _ in range(3)]
        rnd.shuffle(lst)
        for kind, conv in (("RSN", "rs_narrow"), ("RSW", "rs_wide"), ("RSN", "rs_narrow_from"), ("RSW", "rs_wide_from")):
            b.reset()
            v = b.newb("BVM", "positions", ty="usize", pos=lst)
            bv = b.conv(v, "into_bv", keep=0)
            o = b.conv(bv, conv, keep=0)
            bit_rs_queries(b, o, Seqn.from_values(bits), rnd)
            # edited tail: the last L bits overwritten (they held ones)
            b.reset()
            bits2 = rand_seq(rnd, n, [0, 1])
            L = rnd.choice([1, 13, 64])
            bits2[n - L:] = [1] * L
            v = b.newb("BVM", "bools", Seqn.from_values(bits2))
            w = word_of(rnd, L, "alt")
            b.mut(v, "set_bits", a=[n - L, L], w=w)
            bits3 = bits2[:n - L] + [1 if t in set(w) else 0 for t in range(L)]
            bv = b.conv(v, "into_bv", keep=0)
            o = b.conv(bv, conv, keep=0)
            bit_rs_queries(b, o, Seqn.from_values(bits3), rnd)
    b.reset()
    for kind in ["RSN", "RSW"]:
        o = b.newb(kind, "default")
        bit_rs_queries(b, o, Seqn.from_values([]), rnd)
    # positions beyond 2^32
    # (a leading run of 2^32 ones takes ~10 s to build bit by bit: one kind in the quick tier)
    big_bits(b, rnd, ["RSN", "RSW"], nobj=1 if tier == "quick" else 2, fills=(0,))
    big_bits(b, rnd, [rnd.choice(["RSN", "RSW"])] if tier == "quick" else ["RSN", "RSW"], fills=(1,))
    return b


def darray_group(rnd, letter, bit):
    """runs producing one group of 1024 occurrences of `bit` (others are 1-bit)"""
    ob = 1 - bit
    if letter == "dense":
        # 1024 occurrences within fewer than 65536 bits
        gap = rnd.choice([0, 1, 3, 20, 62])
        return [([bit] + [ob] * gap, 1024)]
    if letter == "sparse":
        gap = rnd.choice([64, 65, 100, 300])
        return [([bit] + [ob] * gap, 1024)]
    if letter == "exact_dense":
        # span last-first = 65535 (still dense): 1023 gaps summing to 65535
        # 1023 * 64 = 65472 -> add 63 extra
        return [([bit] + [ob] * 63, 1023 - 63), ([bit] + [ob] * 64, 63), ([bit], 1)]
    if letter == "exact_sparse":
        # span = 65536 (first sparse): 1023 gaps of 64 + 64 extra
        return [([bit] + [ob] * 63, 1023 - 64), ([bit] + [ob] * 64, 64), ([bit], 1)]
    if letter == "dense_lastsub":
        # a full dense group whose last sub-group of 32 starts 65503 = 65535 - 32 bits after the first
        # occurrence (the next sub-group entry, of a following sparse group, is the placeholder 65535);
        # the last 32 occurrences are not contiguous
        D = 65503
        return [([bit] + [ob] * 65, 992), ([ob], D - 992 * 66), ([bit], 5), ([ob], 1), ([bit], 27)]
    if letter == "partial_sub65535":
        # a partial group of 993 occurrences: the 993rd one, the only one of its sub-group, 65535 bits after the first
        return [([bit] + [ob] * 65, 992), ([ob], 65535 - 992 * 66), ([bit], 1)]
    if letter == "partial":
        k = rnd.choice([1, 31, 32, 33, 500])
        return [([bit] + [ob] * rnd.choice([0, 2, 70]), k)]
    if letter.startswith("partial_span"):
        # a partial group of 32*j+1 occurrences whose first and last are exactly `span` bits apart
        span = int(letter[len("partial_span"):])
        j = rnd.choice([1, 2, 7, 31])
        k = 32 * j + 1
        step = span // (k - 1)
        rest = span - step * (k - 1)
        runs = [([bit] + [ob] * (step - 1), k - 1 - rest)] if k - 1 - rest > 0 else []
        if rest > 0:
            runs.append(([bit] + [ob] * step, rest))
        runs.append(([bit], 1))
        return runs
    raise ValueError(letter)


def darray_inputs(rnd, tier):
    out = [("empty", Seqn.from_values([])), ("zeros", Seqn.from_runs([([0], 200)])), ("ones", Seqn.from_runs([([1], 2100)])),
           ("small", Seqn.from_values(rand_seq(rnd, 300, [0, 1])))]
    for span in (65535, 65536, 65537):
        for bit in (1, 0):
            out.append(("only_partial_span%d_%d" % (span, bit), Seqn.from_runs(darray_group(rnd, "partial_span%d" % span, bit) + [([1 - bit], rnd.choice([0, 1, 65]))])))
    # sub-group offsets that collide with the 16-bit placeholder of sparse groups
    for bit in (1, 0):
        out.append(("sentinel_a_%d" % bit, Seqn.from_runs(darray_group(rnd, "dense_lastsub", bit) + darray_group(rnd, "sparse", bit) + [([1 - bit], 3)])))
        out.append(("sentinel_b_%d" % bit, Seqn.from_runs(darray_group(rnd, "dense", bit) + darray_group(rnd, "partial_sub65535", bit))))
    letters = ["dense", "sparse", "exact_dense", "exact_sparse"]
    words = []
    maxlen = 3 if tier == "thorough" else 2
    for L in range(1, maxlen + 1):
        for w in itertools.product(letters, repeat=L):
            words.append(list(w))
    if tier == "quick":
        words = rnd.sample(words, 7) + [["sparse", "dense"], ["exact_sparse", "dense"]]
    for w in words:
        for bit in (1, 0):
            runs = []
            for letter in w:
                runs += darray_group(rnd, letter, bit)
            r = rnd.random()
            if r < 0.4:
                runs += darray_group(rnd, "partial", bit)
            elif r < 0.9:
                runs += darray_group(rnd, "partial_span%d" % rnd.choice([65535, 65536, 65537, 70000]), bit)
            if rnd.random() < 0.5:
                runs += [([1 - bit], rnd.choice([1, 64, 700]))]
            out.append(("%s_%d" % ("-".join(w), bit), Seqn.from_runs(runs)))
    return out


def big_bits(b, rnd, kinds, nobj=1, fills=(0,)):
    """bit structures whose tail lies beyond position 2^32 (a leading run of `base` zeros or ones):
    every answer is that of the tail shifted by base; 32-bit truncation of a stored or computed
    position or counter shows"""
    for _ in range(nobj):
        for fill in fills:
            base = (1 << 32) + rnd.choice([0, 1, 5, 511, 70001])
            bit = 1 - fill      # the rare bit of the tail forms the dense / sparse groups
            runs = darray_group(rnd, rnd.choice(["sparse", "exact_sparse"]), bit) + darray_group(rnd, "dense", bit) \
                + darray_group(rnd, "sparse", bit) + darray_group(rnd, rnd.choice(["partial", "partial_span65536"]), bit) + [([fill], rnd.choice([0, 3, 700]))]
            s = Seqn.from_runs(runs)
            vals = s.values()
            n = len(vals)
            cnt = {1: sum(vals), 0: n - sum(vals)}
            for kind in kinds:
                b.reset()
                o = b.newbig(kind, base, s, fill=fill)
                b.metabig(o)
                if kind == "BVM":
                    # writes that leave the content as it is: the counters must not move
                    b.mut(o, "set", a=[7, fill])
                    b.mut(o, "set_bits", a=[5, 64], w=list(range(64)) if fill == 1 else [])
                    b.mut(o, "set_bits", a=[1000, 13], w=list(range(13)) if fill == 1 else [])
                    b.metabig(o)
                rel = sorted(set([-70000, -513, -1, 0, 1, 2, 63, 64, 511, 512, n // 2, n - 2, n - 1, n, n + 1, n + 70] + [rnd.randrange(n) for _ in range(12)]))
                b.qbig(o, "get", rel)
                if kind in ("RSN", "RSW"):
                    b.qbig(o, "rank1", rel)
                    b.qbig(o, "rank0", rel)
                for bb in (1, 0):
                    m = "select%d" % bb
                    if kind in ("BV", "BVM") or (bb == 0 and kind == "DA0"):
                        continue
                    c = cnt[bb]
                    ks = sorted(set([0, 1, 2, 31, 32, 1023, 1024, 1025, 2047, 2048, 65536, c // 2, c - 2, c - 1, c, c + 1, (1 << 30) - 1]
                                    + [rnd.randrange(max(1, c)) for _ in range(12)]))
                    b.qbig(o, m, [k for k in ks if k >= 0], form="abs")
                    js = sorted(set([-70000, -2, -1, 0, 1, 2, c // 2, c - 1, c, c + 1] + [rnd.randrange(max(1, c)) for _ in range(8)]))
                    b.qbig(o, m, js, form="rel")
                if kind in ("BV", "BVM", "DA0", "DA1"):
                    # position iterators started inside the leading run, at its end, inside and after the tail
                    for r in (-3, -1, 0, 1, n // 2, n - 1, n, n + 5):
                        b.ithbig(o, "ones_with_pos", rel=r, cnt=5)
                        b.ithbig(o, "zeros_with_pos", rel=r, cnt=5)
                    b.ithbig(o, "ones", cnt=4)
                    b.ithbig(o, "zeros", cnt=4)
                b.drop(o)


def long_quads(b, rnd, kinds):
    """quad structures over more than 2^27 symbols (more than 65 536 superblocks): a leading run of
    one symbol, then a tail with all four symbols; a stored superblock id or counter narrower than
    the length shows"""
    f = rnd.randrange(4)
    others = [x for x in range(4) if x != f]
    x, y, z = others
    tail = Seqn.from_runs([([x, y], 3000), ([z], 1), ([y], 9000), ([x, f, z], 1500), ([x], 8200), ([z, z, y], 700), ([f], 300), ([x], 5)])
    vals = tail.values()
    n = len(vals)
    for kind in kinds:
        # 65 536 superblocks are 2^27 symbols with 256-symbol blocks and 2^28 with 512-symbol blocks
        base = (1 << (28 if "512" in kind else 27)) + rnd.choice([0, 1, 255, 4097, 70001])
        b.reset()
        o = b.newbigq(kind, base, f, tail)
        rel = sorted(set([-70000, -2049, -1, 0, 1, 2, 255, 256, 2047, 2048, n // 2, n - 1, n, n + 1] + [rnd.randrange(n) for _ in range(10)]))
        b.qbigq(o, "get", 0, rel)
        if kind == "QV":
            continue
        tree = kind.startswith("QWT")
        for sy in (0, 1, 2, 3) if tree else (0, 1, 2, 3, 4):
            c = sum(1 for v in vals if v == sy)
            b.qbigq(o, "rank", sy, [r for r in rel if not tree or r <= n])
            ks = sorted(set([0, 1, 2, 8191, 8192, 8193, c // 2, c - 1, c, c + 1] + [rnd.randrange(max(1, c)) for _ in range(8)]))
            if sy == f:
                b.qbigq(o, "select", sy, [k for k in ks if k >= 0] + [base - 1], form="abs")
                b.qbigq(o, "select", sy, [k for k in ks if k >= 0] + ([] if tree else [-1]), form="rel")
            else:
                b.qbigq(o, "select", sy, [k for k in ks if k >= 0], form="abs")
            if not tree:
                b.qbigq(o, "occs", sy, [0], form="abs")
                b.qbigq(o, "occs_smaller", sy, [0], form="abs")
        b.drop(o)


def camp_c07(rnd, tier):
    b = Beh()
    paths = rotate(["new", "bools", "positions"], rnd)
    ptys = rotate(["usize", "u32", "u64", "i64", "u128", "i32"], rnd)
    for name, s in darray_inputs(rnd, tier):
        for kind in ["DA0", "DA1"]:
            b.reset()
            path = next(paths)
            if path == "positions" and (len(s) == 0 or sum(s.values()[-1:]) == 0):
                path = "new"  # collecting positions drops trailing zeros: keep the length observable
            o = b.newb(kind, path, s, ty=next(ptys))
            bit_rs_queries(b, o, s, rnd, rank=False, select0=(kind == "DA1"))
            if len(s) < 5000:
                n = len(s)
                b.ith(o, "ones", "n" * min(40, n + 2))
                b.ith(o, "zeros", "n" * min(40, n + 2))
                b.ith(o, "ones_with_pos", "n" * 10, pos=rnd.randrange(0, n + 2))
                b.ith(o, "iter", "nl" * min(20, n + 2))
    b.reset()
    for kind in ["DA0", "DA1"]:
        o = b.newb(kind, "default")
        bit_rs_queries(b, o, Seqn.from_values([]), rnd, rank=False, select0=(kind == "DA1"))
    # positions beyond 2^32 (the zeros inventory of DA1 over 2^32 leading zeros takes ~10 s: thorough only)
    big_bits(b, rnd, ["DA0"] if tier == "quick" else ["DA0", "DA1"], fills=(0,))
    if tier == "thorough":
        big_bits(b, rnd, ["DA0"], fills=(1,))
    return b


# ------------------------------------------------------------------ C08 bit vectors under histories


def word_of(rnd, length, style=None):
    """a u64 given as the list of its set bit positions, all below `length`"""
    if length == 0:
        return []
    style = style or rnd.choice(["zero", "ones", "alt", "rand", "one"])
    if style == "zero":
        return []
    if style == "ones":
        return list(range(length))
    if style == "alt":
        return list(range(rnd.randrange(2), length, 2))
    if style == "one":
        return [rnd.randrange(length)]
    return [i for i in range(length) if rnd.random() < 0.5]


def get_bits_args(n, rnd):
    starts = set([0, 1, 62, 63, 64, 65, 447, 448, 449, 511, 512, 513])
    for L in (1, 2, 63, 64):
        starts.update([n - L - 1, n - L, n - L + 1])
    starts.update(rnd.randrange(0, n + 1) for _ in range(6))
    pairs = []
    for st in sorted(x for x in starts if 0 <= x <= n + 1):
        for L in (1, 2, 3, 31, 63, 64, rnd.randrange(1, 65)):
            pairs.append([st, L])
    # exactly up to the end, for every length
    for L in range(1, 65):
        if n - L >= 0:
            pairs.append([n - L, L])
    pairs += [[0, 0], [0, 65], [1, 200], [n, 1], [n + 1, 1], [-1, 1], [-5, 64], [-7, 64], [0, -1], [3, -2]]
    return pairs


def bvm_observe(b, o, bits, rnd, kind="BVM", light=False):
    n = len(bits)
    b.meta(o)
    pos = position_args(n, rnd=rnd, k=10, huge=(-1, -2))
    if n <= 130:
        pos = clip_args(list(range(0, n + 3)) + [-1, -2])
    b.qg(o, "get", [], pos)
    if kind in ("BV", "BVM"):
        pairs = get_bits_args(n, rnd)
        if light:
            # reads touching the last word of the storage are always kept
            must = [pr for pr in pairs if pr[0] >= 0 and pr[1] >= 1 and n - 66 <= pr[0] + pr[1] <= n + 1]
            rest = [pr for pr in pairs if pr not in must]
            pairs = rnd.sample(must, min(30, len(must))) + rnd.sample(rest, min(25, len(rest)))
        b.qg(o, "get_bits", [], pairs)
        nw = (n + 63) // 64
        b.qg(o, "get_word", [], list(range(nw)))
        if kind == "BV":
            b.qg(o, "n_lines", [], [0])
            b.qg(o, "prefetch_line", [], [0, 1, (n + 511) // 512, -1, -2])
        if n > 0:
            lines = (n + 511) // 512
            pad = [w for w in range(nw, lines * 8)][:3]
            if pad:
                b.qg(o, "get_word", [], pad)
        if n <= 700 and not light:
            b.ith(o, "iter", "n" * (n + 2) + "l")
            b.ith(o, "iter", "".join(rnd.choice("nnl") for _ in range(min(n + 4, 40))))
            b.ith(o, "ones", "n" * (sum(bits) + 2))
            b.ith(o, "zeros", "n" * (n - sum(bits) + 2))
        for p in [0, 1, 63, 64, 65, 511, 512, n - 1, n, n + 1, n + 64, rnd.randrange(0, n + 2), -1]:
            if p >= -1:
                b.ith(o, rnd.choice(["ones_with_pos", "zeros_with_pos"]), "n" * rnd.choice([3, 9, 70]), pos=p)


def bvm_history(b, rnd, nops, tier):
    """a random history on a fresh BitVectorMut, mirrored on a python list"""
    start = rnd.choice(["bvm_new", "default", "with_capacity", "with_zeros", "bools", "positions"])
    bits = []
    if start == "with_zeros":
        n = rnd.choice([0, 1, 63, 64, 65, 511, 512, 513, 1000])
        o = b.newb("BVM", "with_zeros", n=n)
        bits = [0] * n
    elif start == "with_capacity":
        o = b.newb("BVM", "with_capacity", n=rnd.choice([0, 1, 64, 1000]))
    elif start == "bools":
        bits = rand_seq(rnd, rnd.choice([0, 1, 63, 64, 65, 500, 512, 513]), [0, 1])
        o = b.newb("BVM", rnd.choice(["bools", "bools_filter", "cap_push"]), Seqn.from_values(bits))
    elif start == "positions":
        bits = rand_seq(rnd, rnd.choice([1, 64, 65, 513]), [0, 1]) + [1]
        o = b.newb("BVM", "positions", Seqn.from_values(bits))
    else:
        o = b.newb("BVM", start)
    for step in range(nops):
        n = len(bits)
        op = rnd.choice(["push", "push", "append_bits", "append_bits", "extend_with_zeros", "set", "set_bits", "set_bits",
                         "extend_bools", "extend_positions", "roundtrip", "clone", "collect", "to_boundary", "to_boundary"])
        if op == "to_boundary":
            # one mutator brings the length exactly onto a word / line boundary, another one continues from there
            B = rnd.choice([64, 512, 512])
            need = (B - n % B) % B or B
            how = rnd.choice(["append_bits", "append_bits", "push", "extend_with_zeros", "extend_bools"])
            if how == "append_bits":
                while need > 0:
                    L = min(64, need) if rnd.random() < 0.7 else min(need, rnd.choice([1, 13, 64]))
                    w = word_of(rnd, L)
                    b.mut(o, "append_bits", a=[L], w=w)
                    bits += [1 if i in set(w) else 0 for i in range(L)]
                    need -= L
            elif how == "push":
                for _ in range(need):
                    v = rnd.randrange(2)
                    b.mut(o, "push", a=[v])
                    bits.append(v)
            elif how == "extend_with_zeros":
                b.mut(o, "extend_with_zeros", a=[need])
                bits += [0] * need
            else:
                e = rand_seq(rnd, need, [0, 1])
                b.mut(o, "extend_bools", bits=e)
                bits += e
            nxt = rnd.choice(["push", "append_bits", "extend_bools", "extend_positions", "extend_with_zeros"])
            if nxt == "push":
                b.mut(o, "push", a=[1])
                bits.append(1)
            elif nxt == "append_bits":
                L = rnd.choice([1, 3, 64])
                w = word_of(rnd, L, "ones") if L == 1 else word_of(rnd, L)
                b.mut(o, "append_bits", a=[L], w=w)
                bits += [1 if i in set(w) else 0 for i in range(L)]
            elif nxt == "extend_bools":
                b.mut(o, "extend_bools", bits=[1, 0, 1])
                bits += [1, 0, 1]
            elif nxt == "extend_positions":
                ps = [len(bits), len(bits) + 2]
                b.mut(o, "extend_positions", pos=ps)
                bits += [1, 0, 1]
            else:
                b.mut(o, "extend_with_zeros", a=[1])
                bits += [0]
        elif op == "push":
            for _ in range(rnd.choice([1, 1, 3, 70])):
                v = rnd.randrange(2)
                b.mut(o, "push", a=[v])
                bits.append(v)
        elif op == "append_bits":
            L = rnd.choice([0, 1, 3, 13, 63, 64])
            w = word_of(rnd, L)
            b.mut(o, "append_bits", a=[L], w=w)
            bits += [1 if i in set(w) else 0 for i in range(L)]
        elif op == "extend_with_zeros":
            k = rnd.choice([0, 1, 2, 63, 64, 65, 511, 512, 513])
            b.mut(o, "extend_with_zeros", a=[k])
            bits += [0] * k
        elif op == "set" and n > 0:
            for _ in range(rnd.choice([1, 4])):
                i = rnd.choice([0, n - 1, rnd.randrange(n), (n // 64) * 64 - 1 if n >= 64 else 0, min(n - 1, 511), min(n - 1, 512)])
                v = rnd.randrange(2)
                b.mut(o, "set", a=[i, v])
                bits[i] = v
        elif op == "set_bits" and n > 0:
            L = rnd.choice([0, 1, 2, 13, 63, 64])
            L = min(L, n)
            cands = [0, n - L, rnd.randrange(0, n - L + 1)]
            for c in (64, 512):
                if c - 3 >= 0 and c - 3 + L <= n:
                    cands.append(c - 3)
            i = rnd.choice(cands)
            w = word_of(rnd, L)
            b.mut(o, "set_bits", a=[i, L], w=w)
            ws = set(w)
            for t in range(L):
                bits[i + t] = 1 if t in ws else 0
        elif op == "extend_bools":
            e = rand_seq(rnd, rnd.choice([0, 1, 5, 64, 130]), [0, 1])
            b.mut(o, rnd.choice(["extend_bools", "extend_bools", "extend_bools_filter"]), bits=e)
            bits += e
        elif op == "extend_positions":
            base = rnd.choice([n, n, n + 1, n + 70, max(0, n - 5)])
            k = rnd.choice([0, 1, 3, 10])
            ps = set(base + rnd.randrange(0, 200) for _ in range(k))
            if n > 0 and rnd.random() < 0.6:
                # positions that already hold a one / a zero
                ones_at = [i for i, v in enumerate(bits) if v == 1]
                if ones_at:
                    ps.update(rnd.sample(ones_at, min(len(ones_at), rnd.choice([1, 2]))))
                ps.add(rnd.randrange(n))
            ps = sorted(ps)
            r = rnd.random()
            if ps and r < 0.25:
                # the same position more than once / any order: still the set of positions
                ps = ps + [rnd.choice(ps) for _ in range(rnd.choice([1, 2]))]
                rnd.shuffle(ps)
            b.mut(o, "extend_positions", pos=ps)
            if ps:
                if max(ps) + 1 > len(bits):
                    bits += [0] * (max(ps) + 1 - len(bits))
                for p in ps:
                    bits[p] = 1
        elif op == "roundtrip":
            bv = b.conv(o, "into_bv", keep=0)
            bvm_observe(b, bv, bits, rnd, kind="BV", light=True)
            o = b.conv(bv, "into_bvm", keep=0)
        elif op == "clone":
            c = b.conv(o, "clone")
            b.eq(o, c)
            bvm_observe(b, c, bits, rnd, light=True)
            b.drop(c)
        elif op == "collect":
            c = b.conv(o, "collect_iter")
            b.eq(o, c)
            b.drop(c)
        if rnd.random() < 0.5 or step == nops - 1:
            bvm_observe(b, o, bits, rnd, light=(step != nops - 1))
    # an independently collected vector with the same bits compares equal
    ref = b.newb("BVM", "bools", Seqn.from_values(bits))
    b.eq(o, ref)
    if bits:
        other = list(bits)
        j = rnd.randrange(len(other))
        other[j] ^= 1
        r2 = b.newb("BVM", "bools", Seqn.from_values(other))
        b.eq(o, r2)
    bv = b.conv(o, "into_bv", keep=1)
    bvm_observe(b, bv, bits, rnd, kind="BV")
    refbv = b.newb("BV", rnd.choice(["bools", "from_bvm"]), Seqn.from_values(bits))
    b.eq(bv, refbv)
    return o, bits


def camp_c08(rnd, tier):
    b = Beh()
    nh = 30 if tier == "quick" else 200
    for h in range(nh):
        b.reset()
        bvm_history(b, rnd, rnd.choice([3, 6, 12]) if tier == "quick" else rnd.choice([6, 12, 40]), tier)
    # documented panics leave the object untracked, never an alarm
    b.reset()
    o = b.newb("BVM", "bools", Seqn.from_values([1, 0, 1]))
    b.mut(o, "set", a=[3, 1])
    o = b.newb("BVM", "bools", Seqn.from_values([1, 0, 1]))
    b.mut(o, "append_bits", a=[2], w=[0, 5])
    o = b.newb("BVM", "bools", Seqn.from_values([1, 0, 1]))
    b.mut(o, "set_bits", a=[2, 2], w=[0])
    b.meta(o)
    # positions beyond 2^32: len, counters and get of a vector with 2^32 leading zeros
    big_bits(b, rnd, ["BV"] if tier == "quick" else ["BV", "BVM"], fills=(0,) if tier == "quick" else (0, 1))
    if tier == "quick":
        big_bits(b, rnd, ["BVM"], fills=(1,))     # more than 2^32 ones: the counters beyond 32 bits, under (idempotent) writes
    return b


# ------------------------------------------------------------------ C12 iterators


def words(alphabet, maxlen):
    out = []
    for L in range(0, maxlen + 1):
        for w in itertools.product(alphabet, repeat=L):
            out.append("".join(w))
    return out


def camp_c12(rnd, tier):
    b = Beh()
    maxn = 3 if tier == "quick" else 4
    extra = 2 if tier == "quick" else 3
    kinds = rotate(TREE_KINDS, rnd)
    types = rotate(UTYPES, rnd)
    # (every call word over {next, next_back, len} on short sequences is enumerated by TLC: Gen_it_*.cfg)
    # default-constructed and empty trees: an empty iteration with len 0
    b.reset()
    for kind in TREE_KINDS:
        for path in ("default", "from_vec"):
            o = b.newt(kind, next(types), path, Seqn.from_values([]))
            b.ith(o, "iter", "lnbl")
            b.ith(o, "ref_into_iter", "bnl")
            b.ith(o, "into_iter", "nlb", keep=1)
    # longer sequences, random histories
    for kind in TREE_KINDS:
        ty = next(types)
        n = rnd.choice([17, 64, 300])
        s = Seqn.from_values(rand_seq(rnd, n, list(range(min(tmax(ty), 40) + 1))))
        b.reset()
        o = b.newt(kind, ty, "collect", s)
        for _ in range(4):
            w = "".join(rnd.choice("nnbbl") for _ in range(n + rnd.choice([0, 5, 40])))
            b.ith(o, rnd.choice(["iter", "into_iter"]), w, keep=1)
        b.ith(o, "iter", "n" * (n + 3) + "l" + "b" + "l")
        b.ith(o, "iter", "b" * (n + 3) + "l" + "n" + "l")
        # the skipping calls nth(1), nth(3), nth_back(2) mixed with the plain ones
        for _ in range(3):
            w = "".join(rnd.choice("njkbBlh") for _ in range(n // 2 + rnd.choice([0, 5, 20])))
            b.ith(o, rnd.choice(["iter", "into_iter"]), w, keep=1)
        b.ith(o, "iter", "hn" + "n" * (n + 1) + "hnh")
        b.ith(o, "into_iter", "n" * (n + 2), keep=0)
    # forward iterators of bit vectors (with len), quad vectors, position iterators, DArray
    for n in list(range(0, maxn + 1)) + [63, 64, 65, 130, 511, 512, 513, 1024]:
        bits = rand_seq(rnd, n, [0, 1])
        s = Seqn.from_values(bits)
        b.reset()
        bv = b.newb("BV", "bools", s)
        bvm = b.newb("BVM", "bools", s)
        da = b.newb("DA1", "new", s)
        ws = [w for w in words("nl", min(n, 4) + extra) if len(w) == min(n, 4) + extra] if n <= 4 else \
             ["".join(rnd.choice("nnl") for _ in range(n + 6)) for _ in range(2)] + ["n" * (n + 3) + "lnl"]
        for w in ws:
            b.ith(bv, "iter", w)
            b.ith(bvm, "iter", w)
            b.ith(bv, "into_iter", w, keep=1)
            b.ith(bvm, "into_iter", w, keep=1)
            b.ith(da, "iter", w)
        for o in (bv, bvm, da):
            for m in ("ones", "zeros"):
                b.ith(o, m, "n" * (n + 3))
            for p in sorted(set([0, 1, n // 2, n - 1, n, n + 1, n + 70, -1])):
                if p >= -1:
                    k = (n + 3) if n <= 130 else rnd.choice([5, 70])
                    b.ith(o, "ones_with_pos", "n" * k, pos=p)
                    b.ith(o, "zeros_with_pos", "n" * k, pos=p)
        quads = rand_seq(rnd, n, [0, 1, 2, 3])
        sq = Seqn.from_values(quads)
        for kind in ("QV", "RSQ256", "RSQ512"):
            q = b.newq(kind, "u8", "collect", sq)
            b.ith(q, "iter", "n" * (n + 4))
            b.ith(q, "ref_into_iter", "n" * (n + 4))
            b.ith(q, "into_iter", "n" * (n + 4), keep=1)
            b.ith(q, "iter", "".join(rnd.choice("njklh") for _ in range(n // 2 + 4)))
            b.ith(q, "into_iter", "".join(rnd.choice("njkh") for _ in range(n // 2 + 4)), keep=1)
            # the reported remaining length before, at and after exhaustion (long vectors are run
            # down four at a time)
            drain = "n" * (n + 1) if n <= 200 else "k" * (n // 4 + 2)
            b.ith(q, "iter", "h" + drain + "hnnh")
            b.ith(q, "into_iter", "h" + drain + "hnnh", keep=1)
        for o in (bv, bvm, da):
            b.ith(o, "iter", "".join(rnd.choice("njklh") for _ in range(n // 2 + 4)))
            b.ith(o, "iter", "h" + drain + "hnnh")
            b.ith(o, "ones", "".join(rnd.choice("njkh") for _ in range(n // 3 + 4)))
            b.ith(o, "zeros", "".join(rnd.choice("njkh") for _ in range(n // 3 + 4)))
            b.ith(o, "ones", "h" + drain + "hnh")
        b.ith(bv, "into_iter", "".join(rnd.choice("njkl") for _ in range(n // 2 + 4)), keep=1)
    return b


# ------------------------------------------------------------------ C13 quad vector and builder


def int_values(rnd, ty, k):
    signed = ty.startswith("i")
    bits = {"i8": 8, "i16": 16, "i32": 32, "i64": 64, "isize": 64, "i128": 128}.get(ty) or TY_BITS[ty]
    lo = -(1 << (bits - 1)) if signed else 0
    hi = (1 << (bits - 1)) - 1 if signed else (1 << bits) - 1
    special = [0, 1, 2, 3, 4, 5, 6, 7, hi, hi - 1, hi - 2, hi - 3, lo, lo + 1, lo + 2, lo + 3, hi // 2, hi // 3]
    if signed:
        special += [-1, -2, -3, -4, -5, -6, -7, -8]
    out = []
    for _ in range(k):
        if rnd.random() < 0.5:
            out.append(rnd.choice(special))
        else:
            out.append(rnd.randrange(lo, hi + 1))
    return [min(hi, max(lo, v)) for v in out]


def qv_observe(b, o, n, rnd):
    b.meta(o)
    pos = position_args(n, rnd=rnd, k=10, huge=(-1, -2, -4, -5))
    if n <= 300:
        pos = clip_args(list(range(0, n + 3)) + [-1, -2, -4, -5])
    b.qg(o, "get", [], pos)
    b.ith(o, "iter", "n" * min(n + 3, 600))
    b.ith(o, "into_iter", "n" * min(n + 3, 600), keep=1)
    # skipping iteration: nth(1) / nth(3) mixed with next; from element 128 on in longer vectors
    b.ith(o, "iter", "".join(rnd.choice("njkh") for _ in range(min(n // 2 + 3, 300))))
    b.ith(o, "into_iter", "k" * min(n // 4 + 2, 200) + "hnh", keep=1)


def camp_c13(rnd, tier):
    b = Beh()
    all_types = UTYPES + ITYPES
    lens = [0, 1, 2, 127, 128, 129, 255, 256, 257, 511, 512, 513, 700]
    # collecting from every integer type
    for ty in all_types:
        for n in (lens if tier == "thorough" else rnd.sample(lens, 4)):
            vals = int_values(rnd, ty, n)
            s = Seqn.from_values(vals)
            b.reset()
            o = b.newq("QV", ty, "collect", s)
            qv_observe(b, o, n, rnd)
            qb = b.newq("QB", ty, "collect", s)
            o2 = b.conv(qb, "qbuild", keep=0)
            qv_observe(b, o2, n, rnd)
            b.eq(o, o2)
    # push / extend histories
    nh = 25 if tier == "quick" else 150
    for _ in range(nh):
        b.reset()
        start = rnd.choice(["qb_new", "default", "qb_with_capacity"])
        qb = b.newq("QB", "u8", start, Seqn.from_values([0] * rnd.choice([0, 1, 300])))
        n = 0
        for _ in range(rnd.choice([1, 3, 6])):
            if rnd.random() < 0.5:
                for _ in range(rnd.choice([1, 2, 127, 128, 129, 256])):
                    b.mut(qb, "qpush", a=[rnd.choice([0, 1, 2, 3, 4, 7, 255, rnd.randrange(256)])])
                    n += 1
            else:
                ty = rnd.choice(all_types)
                vals = int_values(rnd, ty, rnd.choice([0, 1, 5, 128, 255, 257]))
                b.mut(qb, "qextend", ty=ty, vals=[sym(v) for v in vals])
                n += len(vals)
            if rnd.random() < 0.4:
                qv = b.conv(qb, "qbuild", keep=1)
                qv_observe(b, qv, n, rnd)
                b.drop(qv)
        qv = b.conv(qb, "qbuild", keep=0)
        qv_observe(b, qv, n, rnd)
        c = b.conv(qv, "clone")
        b.eq(qv, c)
    # phase sweep: an extend (and a push) arriving at every position class inside a 256-symbol line
    # (position counter = 2 * symbols, so half lines, quarter lines and line ends are all distinct classes),
    # the prefix itself produced by pushes or by an earlier extend
    phases = [0, 1, 64, 127, 128, 129, 192, 255]
    exts = rotate([1, 10, 130, 300, 128, 256], rnd)
    for ph in phases:
        for base in ([0, 256] if tier == "quick" else [0, 256, 512, 1024]):
            for how in ("push", "extend"):
                b.reset()
                qb = b.newq("QB", "u8", rnd.choice(["qb_new", "default", "qb_with_capacity"]), Seqn.from_values([0] * rnd.choice([0, 1, 300])))
                pre = [rnd.randrange(1, 256) for _ in range(base + ph)]
                if how == "push":
                    for v in pre:
                        b.mut(qb, "qpush", a=[v])
                elif pre:
                    b.mut(qb, "qextend", ty="u8", vals=[sym(v) for v in pre])
                ext = [rnd.randrange(1, 256) for _ in range(next(exts))]
                b.mut(qb, "qextend", ty="u8", vals=[sym(v) for v in ext])
                tail = [rnd.randrange(1, 256) for _ in range(rnd.choice([0, 1, 3]))]
                for v in tail:
                    b.mut(qb, "qpush", a=[v])
                allv = [v % 4 for v in pre + ext + tail]
                qv = b.conv(qb, "qbuild", keep=0)
                qv_observe(b, qv, len(allv), rnd)
                b.eq(qv, b.newq("QV", "u8", "collect", Seqn.from_values(allv)))
    return b


# ------------------------------------------------------------------ C10 unchecked twins


def legal_tree_calls(rnd, s, ty, fam, k=12):
    """legal argument lists for the unchecked methods of a tree over s"""
    vals = s.values()
    n = len(vals)
    out = {"get": ([], []), "rank": ([], []), "select": ([], [])}
    if n == 0:
        return out
    pos = [p for p in position_args(n, extra=s.boundaries(), rnd=rnd, k=k, huge=()) if p <= n]
    out["get"] = ([sym(0)] * len([p for p in pos if p < n]), [p for p in pos if p < n])
    used = s.used_values()
    mx = used[-1]
    cands = [used[0], mx] + rnd.sample(used, min(4, len(used)))
    if fam in ("QWT", "WT"):
        absent = [v for v in range(0, min(mx, 40)) if v not in set(used)]
        cands += absent[:2]
    cs, as_ = [], []
    for c in cands:
        for p in pos:
            cs.append(sym(c))
            as_.append(p)
    out["rank"] = (cs, as_)
    cnt = {}
    for v in vals:
        cnt[v] = cnt.get(v, 0) + 1
    cs, as_ = [], []
    for c in set(cands):
        if cnt.get(c, 0) > 0:
            for kk in [x for x in occ_args(cnt[c], rnd=rnd, k=5, huge=()) if x < cnt[c]]:
                cs.append(sym(c))
                as_.append(kk)
    out["select"] = (cs, as_)
    return out


def camp_c10(rnd, tier):
    b = Beh()
    types = rotate(UTYPES, rnd)
    # trees
    for kind in TREE_KINDS:
        fam = "QWT" if kind in QUAD_PLAIN else "HQWT" if kind in QUAD_HUFF else kind
        for rep in range(2 if tier == "quick" else 6):
            ty = next(types)
            shapes = huff_input_shapes(rnd, "quick", ty, binary=(kind == "HWT")) if "H" in kind[:2] else tree_input_shapes(rnd, "quick", ty)
            picked = rnd.sample(shapes, min(len(shapes), 6 if tier == "quick" else 14))
            # the largest value of the carrier type is always among the alphabets (sigma + 1 overflows)
            picked += [x for x in shapes if x[0] == "type_max" and x not in picked]
            if fam in ("QWT", "WT") and rep == 0:
                # symbols wider than 32 / 64 bits: more than 16 / 32 quad levels
                wide = [x for x in tree_input_shapes(rnd, "thorough", "u128") if x[0] in ("type_max", "pow2_33", "pow2_65", "pow2_100", "pow2_128")]
                picked = picked + [(n2, s2, "u128") for (n2, s2) in rnd.sample(wide, 2)]
            for item in picked:
                name, s = item[0], item[1]
                ty = item[2] if len(item) > 2 else ty
                b.reset()
                o = b.newt(kind, ty, rnd.choice(["new", "from_vec", "collect"]), s)
                lc = legal_tree_calls(rnd, s, ty, fam)
                b.uq(o, "get_unchecked", "get", *lc["get"])
                b.uq(o, "rank_unchecked", "rank", *lc["rank"])
                b.uq(o, "select_unchecked", "select", *lc["select"])
                if kind not in ("WT", "HWT"):
                    b.uq(o, "rank_prefetch_unchecked", "rank_prefetch", *lc["rank"])
    # quad vectors
    for name, s in quad_input_shapes(rnd, "quick"):
        vals = s.values()
        n = len(vals)
        for kind in ("RSQ256", "RSQ512", "QV"):
            b.reset()
            o = b.newq(kind, "u8", "collect", s)
            pos = [p for p in position_args(n, extra=s.boundaries(), rnd=rnd, k=12, huge=()) if p <= n]
            gp = [p for p in pos if p < n]
            b.uq(o, "get_unchecked", "get", [0] * len(gp), gp)
            if kind == "QV":
                continue
            cs, as_ = [], []
            for c in range(4):
                for p in pos:
                    cs.append(c)
                    as_.append(p)
            b.uq(o, "rank_unchecked", "rank", cs, as_)
            cs, as_ = [], []
            for c in range(4):
                cnt = sum(1 for v in vals if v == c)
                for kk in [x for x in occ_args(cnt, rnd=rnd, k=6, huge=()) if x < cnt]:
                    cs.append(c)
                    as_.append(kk)
            b.uq(o, "select_unchecked", "select", cs, as_)
            b.uq(o, "occs_unchecked", "occs", [0, 1, 2, 3], [0, 0, 0, 0])
            b.uq(o, "occs_smaller_unchecked", "occs_smaller", [0, 1, 2, 3], [0, 0, 0, 0])
    # bit structures
    for name, s in bit_input_shapes(rnd, "quick"):
        vals = s.values()
        n = len(vals)
        ones = sum(vals)
        pos = [p for p in position_args(n, extra=s.boundaries(), rnd=rnd, k=12, huge=()) if p <= n]
        gp = [p for p in pos if p < n]
        for kind, path in (("BV", "bools"), ("BVM", "bools"), ("RSN", "new"), ("RSW", "new"), ("DA0", "new"), ("DA1", "new")):
            b.reset()
            o = b.newb(kind, path, s)
            b.uq(o, "get_unchecked", "get", [], gp)
            if kind in ("BV", "BVM"):
                pairs = [pr for pr in get_bits_args(n, rnd) if pr[0] >= 0 and 1 <= pr[1] <= 64 and pr[0] + pr[1] <= n]
                # BitVectorMut::get_bits refuses reads ending at the last bit (known finding K01): the
                # relation checked == unchecked is only meaningful where the checked method answers
                b.uq(o, "get_bits_unchecked", "get_bits", [], rnd.sample(pairs, min(len(pairs), 60)))
            if kind in ("RSN", "RSW") and n > 0:
                b.uq(o, "rank1_unchecked", "rank1", [], pos)
                b.uq(o, "rank0_unchecked", "rank0", [], pos)
            if kind in ("RSN", "RSW", "DA0", "DA1"):
                b.uq(o, "select1_unchecked", "select1", [], [x for x in occ_args(ones, rnd=rnd, k=10, huge=()) if x < ones])
            if kind in ("RSN", "RSW", "DA1"):
                b.uq(o, "select0_unchecked", "select0", [], [x for x in occ_args(n - ones, rnd=rnd, k=10, huge=()) if x < n - ones])
    return b


# ------------------------------------------------------------------ C09 prefetch transparency


def camp_c09(rnd, tier):
    b = Beh()
    types = rotate(UTYPES, rnd)
    for kind in QUAD_PLAIN + QUAD_HUFF:
        huff = kind in QUAD_HUFF
        for rep in range(2 if tier == "quick" else 4):
            ty = next(types) if rep > 0 else "u128"
            shapes = huff_input_shapes(rnd, tier, ty) if huff else tree_input_shapes(rnd, tier, ty)
            longs = [x for x in shapes if len(x[1]) > 4000]
            smalls = [x for x in shapes if len(x[1]) <= 4000]
            picked = longs + rnd.sample(smalls, min(len(smalls), 8 if tier == "quick" else 30))
            if rep == 0:
                picked = rnd.sample(smalls, min(len(smalls), 5))
            for name, s in picked:
                b.reset()
                o = b.newt(kind, ty, rnd.choice(["new", "from_vec", "collect"]), s)
                n = len(s)
                pos = position_args(n, extra=s.boundaries(), rnd=rnd, k=40, huge=(-1, -2, -4))
                cs = [sym(c) for c in query_symbols(rnd, s, ty, k=6)]
                b.relm(o, "prefetch", "rank", "rank_prefetch", cs, pos)
                # the absolute answers too, so that the cross-build comparison covers every query
                b.meta(o)
                b.qg(o, "get", [], pos)
                b.qg(o, "select", cs[:4], [0, 1, 2, 50, -1])
    # default-constructed trees
    b.reset()
    for kind in QUAD_PLAIN + QUAD_HUFF:
        o = b.newt(kind, "u16", "default", Seqn.from_values([]))
        b.relm(o, "prefetch", "rank", "rank_prefetch", [sym(0), sym(1)], [0, 1, -1])
    return b


# ------------------------------------------------------------------ C11 serde, C19 paths / copies


def all_kind_objects(b, rnd, tier, small=False):
    """builds one object of (almost) every serializable kind; returns list of (obj id, family, Seqn, ty, kind)"""
    out = []
    types = rotate(UTYPES, rnd)
    for kind in TREE_KINDS:
        ty = next(types)
        huff = kind.startswith("H")
        shapes = huff_input_shapes(rnd, "quick", ty, binary=(kind == "HWT")) if huff else tree_input_shapes(rnd, "quick", ty)
        for name, s in rnd.sample(shapes, 3 if tier == "quick" else 8) + [("empty", Seqn.from_values([]))]:
            o = b.newt(kind, ty, rnd.choice(["new", "from_vec", "collect"]), s)
            out.append((o, "T", s, ty, kind))
        if not huff:
            # the carrier maximum of a 64-bit (or wider) type: derived fields that are recomputed
            # rather than stored must not overflow
            wty = rnd.choice(["u64", "usize", "u128"])
            for name, s in [x for x in tree_input_shapes(rnd, "quick", wty) if x[0] == "type_max"]:
                o = b.newt(kind, wty, rnd.choice(["new", "from_vec", "collect"]), s)
                out.append((o, "T", s, wty, kind))
    for name, s in rnd.sample(quad_input_shapes(rnd, "quick"), 5) + [("empty", Seqn.from_values([]))]:
        for kind in ("QV", "RSQ256", "RSQ512"):
            o = b.newq(kind, "u16", "collect", s)
            out.append((o, "Q", s, "u16", kind))
    fixed = [("empty", Seqn.from_values([])),
             ("sparse_long", Seqn.from_runs([([0, 0, 0, 1], 1500), ([0], 700), ([1, 0], 300)])),
             ("dense_long", Seqn.from_runs([([1, 1, 1, 0], 2500), ([1], 900), ([0, 1, 1], 300)])),
             ("tail_zero_lines", Seqn.from_runs([([1, 0, 1], 100), ([0], 1500)])),
             ("all_zero_lines", Seqn.from_runs([([0], 1024)]))]
    for name, s in rnd.sample(bit_input_shapes(rnd, "quick"), 5) + fixed:
        for kind, path in (("BV", "bools"), ("BVM", "bools"), ("RSN", "new"), ("RSW", "new"), ("DA0", "new"), ("DA1", "new")):
            o = b.newb(kind, path, s)
            out.append((o, "B", s, "usize", kind))
    # the select inventories of DArray: dense / sparse groups, partial last groups, spans at the 2^16 limits
    dsh = darray_inputs(rnd, "quick")
    must = [x for x in dsh if "partial" in x[0] or "span" in x[0]]
    for name, s in rnd.sample(dsh, min(len(dsh), 3)) + must[:4]:
        for kind in ("DA0", "DA1"):
            o = b.newb(kind, "new", s)
            out.append((o, "B", s, "usize", kind))
    return out


def rel_all(b, oa, ob, rel, fam, s, ty, kind, rnd):
    """the same grids on two objects"""
    n = len(s)
    pos = position_args(n, extra=s.boundaries(), rnd=rnd, k=12, huge=(-1,))
    if fam == "T":
        cs = [sym(c) for c in query_symbols(rnd, s, ty)]
        b.relo(oa, ob, rel, "get", [], pos)
        b.relo(oa, ob, rel, "rank", cs, pos)
        b.relo(oa, ob, rel, "select", cs, [0, 1, 2, 3, 10, 100, 1000, -1])
        if kind not in ("WT", "HWT"):
            b.relo(oa, ob, rel, "rank_prefetch", cs, pos)
    elif fam == "Q":
        b.relo(oa, ob, rel, "get", [], pos)
        if kind != "QV":
            b.relo(oa, ob, rel, "rank", [0, 1, 2, 3, 4], pos)
            b.relo(oa, ob, rel, "select", [0, 1, 2, 3, 4], [0, 1, 2, 10, 1000, 8192, -1])
            b.relo(oa, ob, rel, "occs", [0, 1, 2, 3, 4], [0])
            b.relo(oa, ob, rel, "occs_smaller", [0, 1, 2, 3, 4], [0])
    else:
        b.relo(oa, ob, rel, "get", [], pos)
        ks = [0, 1, 2, 31, 32, 33, 1000, 1023, 1024, 8192, n // 2, n, -1]
        if kind in ("BV", "BVM"):
            b.relo(oa, ob, rel, "get_bits", [], [[p, L] for p in pos[:12] for L in (1, 7, 64)])
            b.relo(oa, ob, rel, "get_word", [], list(range((n + 63) // 64))[:20])
        if kind in ("RSN", "RSW"):
            b.relo(oa, ob, rel, "rank1", [], pos)
            b.relo(oa, ob, rel, "rank0", [], pos)
        if kind in ("RSN", "RSW", "DA0", "DA1"):
            b.relo(oa, ob, rel, "select1", [], ks)
        if kind in ("RSN", "RSW", "DA1"):
            b.relo(oa, ob, rel, "select0", [], ks)


def two_chain_freqs(depth):
    """frequencies whose binary Huffman tree has two long chains hanging from the root:
    the longest codes have depth + 1 bits and some of them start with a 1"""
    x, y = 4, 3
    ws = [x, x, y, y]
    ca, cb = 2 * x, 2 * y
    la, lb = ca - 1, cb - 1
    ws += [la, lb]
    for _ in range(max(0, depth - 2)):
        na, nb = ca + la, cb + lb
        lb = ca + 1
        la = nb + 1
        ca, cb = na, nb
        ws += [la, lb]
    return ws


def camp_c11(rnd, tier):
    b = Beh()
    # deep binary Huffman codes (more than 24 bits): too long for the specification to hold the
    # value, but the round trip is a relation between the original and the copy
    for depth in ([24] if tier == "quick" else [20, 23, 24, 25]):
        ws = two_chain_freqs(depth)
        runs = []
        for sy, w in enumerate(ws):
            k = 3
            for i in range(k):
                part = w // k + (1 if i < w % k else 0)
                if part:
                    runs.append(([sy], part))
        rnd.shuffle(runs)
        s = Seqn.from_runs(runs)
        b.reset()
        o = b.newt("HWT", "u8", "from_vec", s, nv=1)
        d = b.conv(o, "serde")
        b.eq(o, d)
        n = len(s)
        pos = clip_args([0, 1, 2, n // 3, n // 2, n - 2, n - 1, n, n + 1] + [rnd.randrange(n) for _ in range(40)] + s.boundaries()[:60])
        cs = [sym(c) for c in range(len(ws))] + [sym(len(ws)), sym(255)]
        b.relo(o, d, "serde", "get", [], pos)
        b.relo(o, d, "serde", "rank", cs, pos[:12])
        b.relo(o, d, "serde", "select", cs, [0, 1, 2, 3, 6, 100, -1])
    for rep in range(1 if tier == "quick" else 4):
        b.reset()
        for (o, fam, s, ty, kind) in all_kind_objects(b, rnd, tier):
            d = b.conv(o, "serde")
            b.eq(o, d)
            b.meta(o)
            b.meta(d)
            rel_all(b, o, d, "serde", fam, s, ty, kind, rnd)
            b.drop(d)
            b.drop(o)
    return b


def wider_types(ty):
    i = UTYPES.index(ty)
    return [t for t in UTYPES[i + 1:] if not (ty == "u64" and t == "usize")]


def camp_c19(rnd, tier):
    b = Beh()
    types = rotate(UTYPES, rnd)
    for kind in TREE_KINDS:
        huff = kind.startswith("H")
        for rep in range(1 if tier == "quick" else 3):
            ty = next(types)
            shapes = huff_input_shapes(rnd, "quick", ty, binary=(kind == "HWT")) if huff else tree_input_shapes(rnd, "quick", ty)
            items = [(n2, s2, ty) for n2, s2 in rnd.sample(shapes, 5 if tier == "quick" else 12) + [("empty", Seqn.from_values([])), ("one", Seqn.from_values([min(tmax(ty), 2)]))]]
            if not huff and rep == 0:
                # symbols wider than 64 bits: every construction path must keep all the bits
                wide = [x for x in tree_input_shapes(rnd, "thorough", "u128") if x[0] in ("type_max", "pow2_65", "pow2_100", "pow2_128")]
                items += [(n2, s2, "u128") for (n2, s2) in rnd.sample(wide, 1 if tier == "quick" else 3)]
            for name, s, ty in items:
                b.reset()
                objs = [b.newt(kind, ty, p, s) for p in ("new", "from_vec", "collect", "collect_filter")]
                for i in range(len(objs)):
                    for j in range(i + 1, len(objs)):
                        b.eq(objs[i], objs[j])
                        rel_all(b, objs[i], objs[j], "path", "T", s, ty, kind, rnd)
                c = b.conv(objs[0], "clone")
                b.eq(objs[0], c)
                rel_all(b, objs[0], c, "clone", "T", s, ty, kind, rnd)
                # equality must not depend on which queries a value has answered
                tree_queries(b, objs[0], s, ty, rnd, nrand=4)
                b.eq(objs[0], c)
                b.eq(objs[0], objs[1])
                ci = b.conv(objs[1], "collect_iter")
                rel_all(b, objs[1], ci, "path", "T", s, ty, kind, rnd)
                # a different sequence never compares equal
                vals = s.values()
                if vals:
                    v2 = list(vals)
                    j = rnd.randrange(len(v2))
                    v2[j] = v2[j] + 1 if v2[j] < tmax(ty) else v2[j] - 1
                    d = b.newt(kind, ty, "from_vec", Seqn.from_values(v2))
                    b.eq(objs[0], d)
                    d2 = b.newt(kind, ty, "from_vec", Seqn.from_values(vals + [vals[0]]))
                    b.eq(objs[0], d2)
                    d3 = b.newt(kind, ty, "from_vec", Seqn.from_values(vals[:-1]))
                    b.eq(objs[0], d3)
                    # differences confined to the very end: last element changed, last two different elements swapped
                    v4 = list(vals)
                    v4[-1] = v4[-1] + 1 if v4[-1] < tmax(ty) else v4[-1] - 1
                    b.eq(objs[0], b.newt(kind, ty, "from_vec", Seqn.from_values(v4)))
                    v6 = list(vals)
                    v6[0] = v6[0] + 1 if v6[0] < tmax(ty) else v6[0] - 1
                    b.eq(objs[0], b.newt(kind, ty, "from_vec", Seqn.from_values(v6)))
                    if len(vals) >= 2 and vals[-1] != vals[-2]:
                        v5 = list(vals)
                        v5[-1], v5[-2] = v5[-2], v5[-1]
                        b.eq(objs[0], b.newt(kind, ty, "from_vec", Seqn.from_values(v5)))
                # the same numbers in a wider carrier
                for wt in wider_types(ty)[:2 if tier == "quick" else 5]:
                    w = b.newt(kind, wt, "from_vec", s)
                    rel_all(b, objs[0], w, "carrier", "T", s, ty, kind, rnd)
    # quad vectors: new / From<QVector> / collect
    for name, s in rnd.sample(quad_input_shapes(rnd, "quick"), 6 if tier == "quick" else 12):
        for kind in ("RSQ256", "RSQ512"):
            b.reset()
            objs = [b.newq(kind, ty, p, s) for p, ty in (("new", "u8"), ("from_qv", "u32"), ("collect", "i16"), ("new", "u128"))]
            for i in range(len(objs)):
                for j in range(i + 1, len(objs)):
                    b.eq(objs[i], objs[j])
                    rel_all(b, objs[i], objs[j], "path", "Q", s, "u8", kind, rnd)
            c = b.conv(objs[0], "clone")
            b.eq(objs[0], c)
            vals = s.values()
            if vals:
                v2 = list(vals)
                j = rnd.randrange(len(v2))
                v2[j] = (v2[j] + 1) % 4
                d = b.newq(kind, "u8", "new", Seqn.from_values(v2))
                b.eq(objs[0], d)
                v4 = list(vals)
                v4[-1] = (v4[-1] + 2) % 4
                b.eq(objs[0], b.newq(kind, "u8", "new", Seqn.from_values(v4)))
    # plain quad vectors: same length, same symbol counts, different only in the tail of the last line
    for n in (1, 2, 127, 128, 129, 200, 255, 256, 257, 456, 511, 512, 640):
        vals = rand_seq(rnd, n, [0, 1, 2, 3])
        if n >= 2:
            vals[-1], vals[-2] = 1, 2
        b.reset()
        a = b.newq("QV", "u8", "collect", Seqn.from_values(vals))
        c = b.conv(a, "clone")
        b.eq(a, c)
        for kind in ("QV", "RSQ256", "RSQ512"):
            x = b.newq(kind, "u8", "collect", Seqn.from_values(vals))
            for edit in ("swap", "last", "first_of_last_half"):
                v2 = list(vals)
                if edit == "swap" and n >= 2:
                    v2[-1], v2[-2] = v2[-2], v2[-1]
                elif edit == "last":
                    v2[-1] = (v2[-1] + 1) % 4
                elif n >= 130:
                    j = n - 1 - ((n - 1) % 128)
                    v2[j] = (v2[j] + 1) % 4
                else:
                    continue
                y = b.newq(kind, "u8", "collect", Seqn.from_values(v2))
                b.eq(x, y)
    # bit structures: From<BitVector> / new; bool- and position-based constructors
    dsh = darray_inputs(rnd, "quick")
    # (always: lengths that are multiples of 512 ending with a one - the position-based constructors
    # then end exactly on a line boundary)
    ends = [("line_end512", Seqn.from_values(rand_seq(rnd, 511, [0, 1]) + [1])), ("line_end1024", Seqn.from_runs([([0], 1023), ([1], 1)]))]
    for name, s in rnd.sample(bit_input_shapes(rnd, "quick"), 6 if tier == "quick" else 12) + rnd.sample(dsh, 2 if tier == "quick" else 6) + ends:
        vals = s.values()
        ends_with_one = bool(vals) and vals[-1] == 1
        for kind, paths in (("RSN", ["new", "from"]), ("RSW", ["new", "from"]), ("DA0", ["new", "bools", "positions"]),
                            ("DA1", ["new", "bools", "positions"]), ("BV", ["bools", "from_bvm", "positions", "bools_filter", "cap_push"]),
                            ("BVM", ["bools", "from_bv", "positions", "bools_filter", "cap_push"])):
            b.reset()
            ps = [p for p in paths if p != "positions" or ends_with_one]
            objs = [b.newb(kind, p, s, ty=rnd.choice(["usize", "u32", "u64", "i64"])) for p in ps]
            for i in range(len(objs)):
                for j in range(i + 1, len(objs)):
                    b.eq(objs[i], objs[j])
                    rel_all(b, objs[i], objs[j], "path", "B", s, "usize", kind, rnd)
            c = b.conv(objs[0], "clone")
            b.eq(objs[0], c)
            # equality must not depend on which queries a value has answered: one side only is queried again
            bit_rs_queries(b, objs[0], s, rnd, rank=kind in ("RSN", "RSW"), select0=kind in ("RSN", "RSW", "DA1")) if kind not in ("BV", "BVM") else b.meta(objs[0])
            b.eq(objs[0], c)
            if len(objs) > 1:
                b.eq(objs[0], objs[1])
            if vals:
                v2 = list(vals)
                j = rnd.randrange(len(v2))
                v2[j] ^= 1
                d = b.newb(kind, ps[0], Seqn.from_values(v2))
                b.eq(objs[0], d)
                for j4 in (-1, 0):
                    v4 = list(vals)
                    v4[j4] ^= 1
                    b.eq(objs[0], b.newb(kind, "new" if "new" in paths else "bools", Seqn.from_values(v4)))
            if kind in ("BV", "BVM") and ends_with_one and len(vals) <= 3000:
                # the same set of positions listed with repetitions and in another order
                ones_at = [i for i, v in enumerate(vals) if v == 1]
                lst = ones_at + [rnd.choice(ones_at) for _ in range(rnd.choice([1, 3]))]
                rnd.shuffle(lst)
                u = b.newb(kind, "positions", ty=rnd.choice(["usize", "u32", "i64"]), pos=lst)
                b.eq(objs[0], u)
                b.meta(u)
                rel_all(b, objs[0], u, "path", "B", s, "usize", kind, rnd)
    return b


# ------------------------------------------------------------------ C04 totality


ALLHUGE = tuple(HUGE)


def derived(b, o, rnd):
    """other ways of obtaining the same value"""
    out = [o]
    out.append(b.conv(o, "clone"))
    out.append(b.conv(o, "serde"))
    return out


def camp_c04(rnd, tier):
    b = Beh()
    types = rotate(UTYPES, rnd)
    # trees: constructors on arbitrary input, Default, Clone, serde, rebuilt from iterator
    for kind in TREE_KINDS:
        huff = kind.startswith("H")
        for rep in range(1 if tier == "quick" else 3):
            ty = next(types)
            # Huffman-shaped trees keep a table indexed by symbol value: values stay small there
            # (a huge one is a permitted allocation failure, not a finding)
            T = min(tmax(ty), 70000) if huff else tmax(ty)
            shapes = [("empty", Seqn.from_values([])), ("zero", Seqn.from_values([0])), ("one", Seqn.from_values([min(T, 9)])),
                      ("single", Seqn.from_runs([([min(T, 6)], 70)])), ("tmax", Seqn.from_values([0, T, T, 1])),
                      ("small", Seqn.from_values(rand_seq(rnd, 40, [0, 1, 2, 3, min(T, 77)]))),
                      ("b256", Seqn.from_values(rand_seq(rnd, rnd.choice([255, 256, 257, 512, 2048]), list(range(min(T, 20) + 1)))))]
            if "Pfs" in kind:
                # exact multiples of the prefetch sampling period, at least two levels
                shapes += [("pfs%d" % m, Seqn.from_values(rand_seq(rnd, m, list(range(min(T, 20) + 1))))) for m in (2048, 4096)]
            if tier == "thorough":
                shapes += rnd.sample(huff_input_shapes(rnd, "quick", ty, kind == "HWT") if huff else tree_input_shapes(rnd, "quick", ty), 6)
            for name, s in shapes:
                b.reset()
                o = b.newt(kind, ty, rnd.choice(["new", "from_vec", "collect"]), s)
                objs = derived(b, o, rnd) + [b.conv(o, "collect_iter")]
                for x in objs:
                    what = ("meta", "get", "rank", "select") + (() if kind in ("WT", "HWT") else ("rank_prefetch",))
                    cs, pos = tree_queries(b, x, s, ty, rnd, what=what, nrand=4, huge=ALLHUGE)
                    n = len(s)
                    b.ith(x, "iter", "n" * min(n + 2, 50) + "lblbnnl")
                    b.ith(x, "into_iter", "b" * min(n + 2, 50) + "lnlb", keep=1)
                # far symbols per carrier
                far = [c for c in (4, 5, 255, 256, 65535, 1 << 32, (1 << 32) + 1, 1 << 63, (1 << 64) - 1, 1 << 64, (1 << 64) + 1, (1 << 127) + 5, tmax(ty)) if c <= tmax(ty)]
                b.qg(o, "rank", [sym(c) for c in far], [0, 1, len(s), -1])
                b.qg(o, "select", [sym(c) for c in far], [0, 1, -1])
        b.reset()
        for ty in ("u8", "u128"):
            d = b.newt(kind, ty, "default", Seqn.from_values([]))
            for x in derived(b, d, rnd):
                tree_queries(b, x, Seqn.from_values([]), ty, rnd, what=("meta", "get", "rank", "select") + (() if kind in ("WT", "HWT") else ("rank_prefetch",)), huge=ALLHUGE)
                b.ith(x, "iter", "nbl")
                b.ith(x, "into_iter", "lnb", keep=1)
    # quad vectors
    qsyms = (0, 1, 2, 3, 4, 5, 7, 8, 15, 16, 64, 127, 128, 254, 255)
    for name, s in [("empty", Seqn.from_values([])), ("one", Seqn.from_values([3]))] + rnd.sample(quad_input_shapes(rnd, "quick"), 4 if tier == "quick" else 10):
        for kind in ("RSQ256", "RSQ512"):
            b.reset()
            o = b.newq(kind, rnd.choice(["u8", "u64", "u128"]), rnd.choice(["new", "collect", "from_qv"]), s)
            for x in derived(b, o, rnd):
                quad_queries(b, x, s, rnd, huge=ALLHUGE, syms=qsyms)
                b.ith(x, "iter", "n" * min(len(s) + 3, 30))
        b.reset()
        qv = b.newq("QV", rnd.choice(ITYPES + UTYPES), "collect", s)
        for x in derived(b, qv, rnd):
            quad_queries(b, x, s, rnd, rs=False, huge=ALLHUGE)
            b.ith(x, "into_iter", "n" * min(len(s) + 3, 30), keep=1)
    b.reset()
    for kind in ("RSQ256", "RSQ512", "QV"):
        d = b.newq(kind, "u8", "default", Seqn.from_values([]))
        for x in derived(b, d, rnd):
            quad_queries(b, x, Seqn.from_values([]), rnd, rs=(kind != "QV"), huge=ALLHUGE, syms=qsyms)
    # bit structures
    shapes = [("empty", Seqn.from_values([])), ("one0", Seqn.from_values([0])), ("one1", Seqn.from_values([1])),
              ("zeros", Seqn.from_runs([([0], 600)])), ("ones", Seqn.from_runs([([1], 513)])),
              ("m512", Seqn.from_values(rand_seq(rnd, 512, [0, 1]))), ("m1024", Seqn.from_values(rand_seq(rnd, 1024, [0, 1]))),
              ("n500", Seqn.from_values(rand_seq(rnd, 500, [0, 1])))] + \
        rnd.sample(bit_input_shapes(rnd, "quick"), 4 if tier == "quick" else 10)
    for name, s in shapes:
        for kind, path in (("RSN", "new"), ("RSW", "new"), ("DA0", "new"), ("DA1", "new"), ("DA1", "bools"), ("BV", "bools"), ("BVM", "bools")):
            b.reset()
            o = b.newb(kind, path, s)
            for x in derived(b, o, rnd):
                if kind in ("BV", "BVM"):
                    bvm_observe(b, x, s.values(), rnd, kind=kind, light=True)
                    b.qg(x, "get", [], list(ALLHUGE))
                else:
                    bit_rs_queries(b, x, s, rnd, huge=ALLHUGE, rank=kind in ("RSN", "RSW"), select0=True)
                if kind in ("DA0", "DA1", "BV", "BVM"):
                    for p in list(ALLHUGE)[:4] + [0, len(s), len(s) + 1]:
                        b.ith(x, "ones_with_pos", "nnn", pos=p)
                        b.ith(x, "zeros_with_pos", "nnn", pos=p)
    b.reset()
    for kind in ("RSN", "RSW", "DA0", "DA1", "BV", "BVM"):
        d = b.newb(kind, "default")
        for x in derived(b, d, rnd):
            if kind in ("BV", "BVM"):
                bvm_observe(b, x, [], rnd, kind=kind, light=True)
            else:
                bit_rs_queries(b, x, Seqn.from_values([]), rnd, huge=ALLHUGE, rank=kind in ("RSN", "RSW"), select0=True)
            if kind != "RSN" and kind != "RSW":
                b.ith(x, "ones", "nn")
                b.ith(x, "zeros_with_pos", "nn", pos=-1)
    # position-list constructors: increasing input is fine, anything else is a documented panic
    b.reset()
    for kind in ("BV", "DA0", "DA1"):
        for ty, pos in (("usize", [0, 5, 6, 700]), ("i32", [3, 4]), ("u128", [1, 9, 64]), ("i64", [5, 2]), ("i8", [-1, 3]), ("u64", [7, 7])):
            o = b.newb(kind, "positions", ty=ty, pos=pos)
            b.meta(o)
            b.qg(o, "get", [], [0, 1, 5, 700, 701, -1])
    # every mutator with valid arguments, each transition of a bit (0->0, 0->1, 1->0, 1->1), in both builds,
    # on vectors obtained in every way (built from bools, converted from an immutable vector, cloned,
    # deserialized, with a generous capacity)
    for how in ("bools", "from_bv", "cap_push", "clone", "serde", "roundtrip"):
        b.reset()
        bits = [1, 0, 1, 1, 0, 0, 1] + [1] * 60 + [0] * 70
        if how in ("bools", "from_bv", "cap_push"):
            o = b.newb("BVM", how, Seqn.from_values(bits))
        else:
            o0 = b.newb("BVM", "bools", Seqn.from_values(bits))
            if how == "roundtrip":
                o = b.conv(b.conv(o0, "into_bv", keep=0), "into_bvm", keep=0)
            else:
                o = b.conv(o0, how, keep=0)
        for i, v in ((0, 0), (0, 0), (0, 1), (0, 1), (1, 1), (1, 0), (63, 0), (64, 0), (66, 0), (67, 1), (136, 1), (136, 0)):
            b.mut(o, "set", a=[i, v])
            bits[i] = v
        b.mut(o, "set_bits", a=[0, 64], w=[])
        bits[0:64] = [0] * 64
        b.mut(o, "set_bits", a=[60, 10], w=[0, 9])
        bits[60:70] = [1] + [0] * 8 + [1]
        b.mut(o, "push", a=[1])
        bits.append(1)
        b.mut(o, "append_bits", a=[64], w=list(range(64)))
        bits += [1] * 64
        b.mut(o, "extend_with_zeros", a=[513])
        bits += [0] * 513
        b.mut(o, "extend_positions", pos=[0, 1, len(bits) + 5])
        bits[0] = bits[1] = 1
        bits += [0] * 5 + [1]
        b.mut(o, "extend_bools", bits=[1, 0, 1])
        bits += [1, 0, 1]
        b.mut(o, "extend_bools_filter", bits=[0, 1])
        bits += [0, 1]
        bvm_observe(b, o, bits, rnd, light=True)
    # mutators at their documented limits
    b.reset()
    o = b.newb("BVM", "bools", Seqn.from_values([1, 0, 1, 1]))
    for m, kw in (("set", dict(a=[4, 1])), ("set_bits", dict(a=[1, 4], w=[0])), ("append_bits", dict(a=[65], w=[])), ("append_bits", dict(a=[3], w=[3])),
                  ("set_bits", dict(a=[0, 2], w=[2])), ("set", dict(a=[-1, 0]))):
        x = b.conv(o, "clone")
        b.mut(x, m, **kw)
    # operation histories on the mutable bit vector (within the documented preconditions)
    for _ in range(8 if tier == "quick" else 40):
        b.reset()
        bvm_history(b, rnd, rnd.choice([4, 8]), tier)
    b.reset()
    # a builder and vector of quads
    qb = b.newq("QB", "u8", "qb_new", Seqn.from_values([]))
    b.mut(qb, "qpush", a=[255])
    qv = b.conv(qb, "qbuild", keep=0)
    quad_queries(b, qv, Seqn.from_values([3]), rnd, rs=False, huge=ALLHUGE)
    return b


# ------------------------------------------------------------------ C14 / C15 / C16 space


def runs_profile(rnd, alphabet, weights):
    """a sequence given as shuffled runs (cheap to count for the specification)"""
    runs = [([a], w) for a, w in zip(alphabet, weights) if w > 0]
    # split big runs so that symbols interleave
    out = []
    for (p, w) in runs:
        k = rnd.choice([1, 2, 3])
        for i in range(k):
            part = w // k + (1 if i < w % k else 0)
            if part > 0:
                out.append((p, part))
    rnd.shuffle(out)
    return Seqn.from_runs(out)


def space_tree_inputs(rnd, tier, ty, huff):
    T = tmax(ty) if not huff else min(tmax(ty), 60000)
    out = [("empty", Seqn.from_values([])), ("one", Seqn.from_values([min(T, 5)]))]
    if not huff and T >= (1 << 32):
        # largest symbols whose bit length is not what a floating-point logarithm says (2^54 - 1
        # rounds to 2^54), and the widest ones: the number of levels is ceil(bitlen / 2) exactly
        cands = [(1 << 32) - 1, 1 << 32, (1 << 53) + 1, (1 << 54) - 1, (1 << 56) - 1, (1 << 56) - 4, (1 << 62) - 1, (1 << 63) + 5, T]
        if T >= (1 << 100):
            cands += [(1 << 64) - 1, 1 << 64, (1 << 100) - 1, (1 << 126) - 1]
        for mx in [c for c in ((1 << 54) - 1, (1 << 56) - 1) if c <= T] + rnd.sample([c for c in cands if c <= T], 2 if tier == "quick" else 6):
            alph = sorted(set([0, 1, mx, mx // 2, mx // 3, 77]))
            out.append(("wide_m%d" % mx, Seqn.from_values(rand_seq(rnd, 20000, alph) + [mx])))
            # and long enough for one extra level (a few percent) to exceed the per-level constants
            nbig = 400000 if tier == "quick" else 1200000
            out.append(("wide_big_m%d" % mx, runs_profile(rnd, alph, [nbig // len(alph)] * len(alph))))
    if huff and tmax(ty) >= (1 << 20):
        # symbol values above 2^16 and 2^17 with very different frequencies (the code length of a
        # symbol must not depend on its numeric value); the code table is indexed by symbol value
        hi = [(1 << 20) + 7, (1 << 18) + 1000, (1 << 17) + 5, 70000 + rnd.randrange(1000), 1 << 16, 1000, 9, 3]
        w = [max(1, int(120000 * 0.45 ** i)) for i in range(len(hi))]
        out.append(("highsyms_desc", runs_profile(rnd, hi, w)))
        out.append(("highsyms_asc", runs_profile(rnd, hi[::-1], w)))
        mid = list(hi)
        rnd.shuffle(mid)
        out.append(("highsyms_mix", runs_profile(rnd, mid, w)))
        # one dominant symbol with a large value, a few rare ones with small and large values
        rare = [5, 300, 70000, (1 << 17) + 9, (1 << 20) + 1, 1 << 16]
        out.append(("highsyms_dom", runs_profile(rnd, [(1 << 18) + 1000] + rare, [180000] + [3000 + 500 * i for i in range(len(rare))])))
    for n in ([1000, 20000] if tier == "quick" else [10, 1000, 20000, 100000]):
        # (always one largest symbol of the form 4^j - 1 and one 2^k: the level count is exact there)
        for mx in rnd.sample([1, 3, 4, 15, 16, 255, 256, 1000, 65535], 3 if tier == "quick" else 6) + [rnd.choice([3, 15, 63, 255]), rnd.choice([4, 8, 64, 128])]:
            mx = min(mx, T)
            k = min(mx + 1, 60)
            alph = sorted(set([0, mx] + [rnd.randrange(mx + 1) for _ in range(k)]))
            if n * len(alph) <= 1500000:
                out.append(("rand_n%d_m%d" % (n, mx), Seqn.from_values(rand_seq(rnd, n, alph) + [mx])))
    # big inputs as runs: uniform, skewed, two symbols, single symbol
    big = 300000 if tier == "quick" else 1000000
    for mx in ([3, 255, 4000] if tier == "quick" else [1, 3, 15, 16, 255, 256, 4000, 65535]):
        mx = min(mx, T)
        k = min(mx + 1, 40)
        alph = sorted(set([0, mx] + [rnd.randrange(mx + 1) for _ in range(k)]))
        w = [big // len(alph)] * len(alph)
        out.append(("big_uniform_m%d" % mx, runs_profile(rnd, alph, w)))
        w = [max(1, int(big * 0.5 ** (i + 1))) for i in range(len(alph))]
        out.append(("big_skewed_m%d" % mx, runs_profile(rnd, alph, w)))
    # one dominant symbol and many moderately frequent ones (counts above 2^16, very different)
    dom = 1500000 if tier == "quick" else 4000000
    out.append(("huge_dominant", runs_profile(rnd, list(range(16)), [dom] + [70000] * 15)))
    # so dominant that the entropy bound drops below two levels per symbol while more than a dozen other
    # symbols still have counts above 2^16 (frequencies that saturate or are truncated all tie there)
    out.append(("huge_dominant_17", runs_profile(rnd, list(range(17)), [dom * 4] + [70000] * 16)))
    out.append(("huge_one_run", Seqn.from_runs([([0], dom)] + [([1 + (i % 9)], 1) for i in range(78)])))
    # the order of the sequence must not matter for the code: the dominant symbol occurs once early
    # and then as one long final (initial) run; the others in short runs in between
    dsym, others = min(T, 4), [x for x in range(0, min(T, 16) + 1) if x != min(T, 4)]
    if others:
        mid = [([rnd.choice(others)], rnd.choice([10, 40, 90])) for _ in range(200)]
        out.append(("dominant_final_run", Seqn.from_runs([([dsym], 1)] + mid + [([dsym], 60000)])))
        out.append(("dominant_initial_run", Seqn.from_runs([([dsym], 60000)] + mid + [([dsym], 1)])))
    if huff and T >= 40:
        # codes deeper than 8 quad levels / 16 binary levels (a code that falls back to a fixed
        # length when "too deep" is no longer within the entropy bound)
        out.append(("dyadic_deep_quad", dyadic_seq(rnd, 4, 9, T)))
        out.append(("dyadic_deep_bin", dyadic_seq(rnd, 2, 17, T)))
    out.append(("big_single", Seqn.from_runs([([min(T, 9)], big)])))
    out.append(("big_two", runs_profile(rnd, [0, min(T, 200)], [big - 5, 5])))
    return out


def camp_space(rnd, tier, which):
    b = Beh()
    types = rotate(UTYPES, rnd)
    kinds = {"plain": QUAD_PLAIN + ["WT"], "huff": QUAD_HUFF + ["HWT"], "all": TREE_KINDS}[which]
    paths = rotate(["new", "from_vec", "collect"], rnd)
    for kind in kinds:
        huff = kind.startswith("H")
        ty = next(types)
        items = [(ty, name, s) for name, s in space_tree_inputs(rnd, tier, ty, huff)]
        # always one wide carrier as well (only its wide-symbol inputs)
        wty = rnd.choice(["u64", "usize", "u128"] if not huff else ["u32", "u64", "u128"])
        have = set(name for _, name, _ in items)
        items += [(wty, name, s) for name, s in space_tree_inputs(rnd, tier, wty, huff) if name.startswith(("wide_", "highsyms")) and name not in have]
        for ty, name, s in items:
            for path in (["new", "from_vec", "collect", "collect_filter"] if ((tier == "thorough" and len(s) < 1200000) or len(s) <= 20001) else [next(paths)]):
                b.reset()
                o = b.newt(kind, ty, path, s, nv=1 if len(s) > 500000 else 0)
                b.space(o)
    if which in ("plain", "all"):
        for n in ([0, 1, 1000, 50000, 400000] if tier == "quick" else [0, 1, 255, 256, 257, 1000, 50000, 400000, 2000000]):
            q = Seqn.from_runs([([0, 1, 2, 3, 3, 1], n // 6), ([2], n % 6)])
            bits = Seqn.from_runs([([0, 1, 1, 0, 1], n // 5), ([0], n % 5)])
            b.reset()
            for kind in ("RSQ256", "RSQ512"):
                for path, ty in (("new", "u8"), ("from_qv", "u64"), ("collect", "i32"), ("collect_filter", "u16")):
                    o = b.newq(kind, ty, path, q)
                    b.space(o)
            for path in ("new", "from"):
                o = b.newb("RSW", path, bits)
                b.space(o)
            if n > 0:
                # built from positions with a huge final gap, and from an all-zero vector
                gap = Seqn.from_runs([([1, 0, 1], 3), ([0], max(0, n - 10)), ([1], 1)])
                # every one is the last bit of a 512-bit line (each extension ends exactly on a line boundary)
                if n >= 1000:
                    ends = Seqn.from_runs([([0] * 511 + [1], n // 512)])
                    for kind, path in (("BVM", "positions"), ("BV", "positions")):
                        x = b.newb(kind, path, ends)
                        b.space(x)
                        if kind == "BV":
                            for m in ("rs_wide", "rs_narrow"):
                                b.space(b.conv(x, m, keep=1))
                for path in ("positions", "with_zeros"):
                    bv = b.newb("BVM", path, gap, n=n)
                    b.space(bv)
                    x = b.conv(bv, "into_bv", keep=0)
                    for m in ("rs_wide", "rs_narrow", "da1"):
                        y = b.conv(x, m, keep=1)
                        b.space(y)
            if which == "all":
                for path in ("collect", "collect_filter", "qb_extend_filter"):
                    o = b.newq("QV", "u8", path, q)
                    b.space(o)
                for kind, path in (("RSN", "new"), ("DA0", "new"), ("DA1", "new"), ("DA1", "bools"), ("BV", "bools"), ("BV", "from_bvm"), ("BVM", "bools"), ("BVM", "with_zeros"),
                                   ("BVM", "with_capacity"), ("BVM", "bvm_new")):
                    o = b.newb(kind, path, bits, n=n)
                    b.space(o)
                # skewed densities for the select inventories
                # (gaps of 70-100: every group of 1024 is sparse, the explicit positions dominate the inventories)
                for dens in ([1] + [0] * 63, [0] + [1] * 63, [1] + [0] * 999, [1] + [0] * 99, [0] + [1] * 99, [1] + [0] * 69):
                    sk = Seqn.from_runs([(dens, max(1, n // len(dens)))])
                    for kind in ("DA0", "DA1", "RSN", "RSW"):
                        o = b.newb(kind, "new", sk)
                        b.space(o)
    return b


def space_sweep(b, rnd, tier, reported_only=False):
    """retained / reported bytes at every length of a range (quick: around the line and block
    boundaries; thorough: every n up to 4200): an allocation that is one line or one block too
    large at particular lengths shows; values are only measured (nv)"""
    if tier == "thorough":
        ns = list(range(0, 4201))
    else:
        ns = sorted(set(x for m in range(0, 4097, 256) for x in (m - 1, m, m + 1) if x >= 0) | set(rnd.randrange(4200) for _ in range(30)))
    b.reset()
    for i, n in enumerate(ns):
        if i % 200 == 199:
            b.reset()
        q = Seqn.from_runs([([0, 1, 2, 3], n // 4), ([1], n % 4)])
        bits = Seqn.from_runs([([0, 1, 1], n // 3), ([1], n % 3)])
        for kind in ("RSQ256", "RSQ512"):
            o = b.newq(kind, "u8", rnd.choice(["new", "collect", "from_qv"]), q, nv=1)
            b.space(o)
            b.drop(o)
        o = b.newt(rnd.choice(QUAD_PLAIN), "u8", rnd.choice(["new", "from_vec", "collect"]), q, nv=1)
        b.space(o)
        b.drop(o)
        o = b.newt("WT", "u8", "from_vec", Seqn.from_runs([([0, 1], n // 2), ([1], n % 2)]), nv=1)
        b.space(o)
        b.drop(o)
        for kind in (("RSW",) if not reported_only else ("RSW", "RSN", "DA1", "BV")):
            o = b.newb(kind, "new" if kind != "BV" else "bools", bits, nv=1)
            b.space(o)
            b.drop(o)


def camp_c14(rnd, tier):
    b = camp_space(rnd, tier, "plain")
    space_sweep(b, rnd, tier)
    return b


def camp_c15(rnd, tier):
    return camp_space(rnd, tier, "huff")


def camp_c16(rnd, tier):
    b = camp_space(rnd, tier, "all")
    space_sweep(b, rnd, tier, reported_only=True)
    # the std containers SpaceUsage is implemented for: flat, with spare capacity, and boxed slices
    # of unequal elements (every element counts, not the first one times the length)
    b.reset()
    for n in (0, 1, 7, 1000, 100000):
        for shape in ("vec_u64", "vec_u8_spare", "box_u32", "box_u128"):
            b.spstd(shape, [n])
    for shape in ("box_vec_u64", "box_box_u16", "box_bv"):
        b.spstd(shape, [])
        b.spstd(shape, [0])
        b.spstd(shape, [5000])
        b.spstd(shape, [20000, 10, 10, 10])
        b.spstd(shape, [0, 0, 9000])
        b.spstd(shape, [10, 30000, 10])
        for _ in range(3 if tier == "quick" else 20):
            b.spstd(shape, [rnd.choice([0, 1, 100, 5000, 70000]) for _ in range(rnd.choice([2, 3, 6]))])
    return b


# ------------------------------------------------------------------ C17 word-level utilities


def bits_of(x, width):
    return [i for i in range(width) if (x >> i) & 1]


def camp_c17(rnd, tier):
    b = Beh()
    # the whole in-byte lookup table through the public function: every (byte, rank) pair in every byte lane
    lanes = range(8) if tier == "thorough" else rnd.sample(range(8), 3)
    for lane in lanes:
        below = rnd.choice([0, 0xFF, 0x5A, 0x01])  # bytes below the lane, contributing to the rank
        for byte in range(256):
            w = 0
            for j in range(lane):
                w |= below << (8 * j)
            w |= byte << (8 * lane)
            if lane < 7 and rnd.random() < 0.5:
                w |= rnd.randrange(256) << (8 * (lane + 1))
            pc = bin(w).count("1")
            ks = sorted(set(k for k in list(range(max(0, bin(w & ((1 << (8 * lane)) - 1)).count("1") - 1), min(64, pc + 2))) if k < 64))
            b.util("select_in_word", w=bits_of(w, 64), ks=ks)
    # words with few set bits, full bytes (carry cases), random words
    special = [0, 1, 1 << 63, (1 << 64) - 1, 0xFF, 0xFF00, 0xFFFF, 0x8000000000000001, 0xFF00FF00FF00FF00, 0x0101010101010101,
               0x8080808080808080, 0xFFFFFFFF, 0xFFFFFFFF00000000, 0x7FFFFFFFFFFFFFFF, 0xFFFFFFFFFFFFFFFE]
    for i in range(64):
        for j in range(i + 1, 64, 7 if tier == "quick" else 1):
            special.append((1 << i) | (1 << j))
    special += [rnd.getrandbits(64) for _ in range(300 if tier == "quick" else 5000)]
    special += [rnd.getrandbits(64) & rnd.getrandbits(64) & rnd.getrandbits(64) for _ in range(100)]
    special += [rnd.getrandbits(64) | rnd.getrandbits(64) | rnd.getrandbits(64) for _ in range(100)]
    for w in special:
        pc = bin(w).count("1")
        ks = sorted(set([0, 1, pc - 1, pc, pc + 1, 63] + [rnd.randrange(64) for _ in range(4)]))
        b.util("select_in_word", w=bits_of(w, 64), ks=[k for k in ks if 0 <= k < 64])
    # 128-bit variant across the 64-bit seam
    sp128 = [0, 1, 1 << 64, 1 << 127, (1 << 128) - 1, (1 << 64) - 1, ((1 << 64) - 1) << 64, (1 << 63) | (1 << 64), 0xFF << 60]
    sp128 += [rnd.getrandbits(128) for _ in range(200 if tier == "quick" else 3000)]
    sp128 += [rnd.getrandbits(64) << 64 for _ in range(20)] + [rnd.getrandbits(64) for _ in range(20)]
    for w in sp128:
        lo = bin(w & ((1 << 64) - 1)).count("1")
        pc = bin(w).count("1")
        ks = sorted(set([0, 1, lo - 1, lo, lo + 1, pc - 1, pc, pc + 1, 127] + [rnd.randrange(128) for _ in range(4)]))
        # every k below 128, including the ones for which the upper half is searched with k - popcount(low) >= 64
        b.util("select_in_word_u128", w=bits_of(w, 128), ks=[k for k in sorted(set(ks + [64, 64 + lo, 100])) if 0 <= k < 128])
    # popcnt_wide
    for n in (0, 1, 2, 3, 4, 5, 6, 7, 8, 12, 16):
        # every slice length around N (shorter, equal, longer), all-ones words and random ones
        Ls = list(range(0, n + 3)) + [n + 5] if n <= 8 else sorted(set([0, 1, 3, 4, 5, 7, 8, 9, n - 4, n - 3, n - 2, n - 1, n, n + 1, n + 5]))
        for L in Ls:
            for style in (("ones", "rand") if tier == "quick" else ("ones", "rand", "rand", "mix")):
                if style == "ones":
                    ws = [(1 << 64) - 1] * L
                elif style == "rand":
                    ws = [rnd.getrandbits(64) for _ in range(L)]
                else:
                    ws = [rnd.choice([0, (1 << 64) - 1, rnd.getrandbits(64)]) for _ in range(L)]
                b.util("popcnt_wide", n=n, ws=[bits_of(x, 64) for x in ws])
    # msb
    for ty in UTYPES:
        bits = TY_BITS[ty]
        vs = [0, 1, 2, 3, (1 << bits) - 1, 1 << (bits - 1), (1 << (bits - 1)) - 1]
        for k in range(1, bits):
            vs += [1 << k, (1 << k) - 1, (1 << k) + 1]
        vs += [rnd.getrandbits(bits) for _ in range(30)]
        for v in sorted(set(v for v in vs if 0 <= v < (1 << bits))):
            b.util("msb", ty=ty, v=sym(v))
    # signed carriers (non-negative values)
    for ty, bits in (("i8", 8), ("i16", 16), ("i32", 32), ("i64", 64), ("isize", 64), ("i128", 128)):
        vs = [0, 1, 2, 3, 5, (1 << (bits - 1)) - 1, 1 << (bits - 2)]
        for k in range(1, bits - 1):
            vs += [1 << k, (1 << k) - 1, (1 << k) + 1]
        for v in sorted(set(v for v in vs if 0 <= v < (1 << (bits - 1)))):
            b.util("msb", ty=ty, v=sym(v))
    # stable partitions: all sequences <= L over 3-bit values embedded at every shift of every type
    L = 4 if tier == "quick" else 5
    base_seqs = []
    for ln in range(0, L + 1):
        for w in itertools.product(range(8), repeat=ln):
            base_seqs.append(list(w))
    for ty in UTYPES:
        bits = TY_BITS[ty]
        shifts = list(range(bits - 1)) if tier == "thorough" else sorted(set([0, 1, 2, 7, 8, 31, 32, 33, 62, 63, 64, 65, 100, 125, 126, bits - 2]) & set(range(bits - 1)))
        for sh in shifts:
            seqs = rnd.sample(base_seqs, 12 if tier == "quick" else 80) + [[rnd.randrange(8) for _ in range(rnd.choice([20, 100]))]]
            for vals in seqs:
                for m in ("part4", "part2"):
                    if m == "part4" and sh + 2 > bits:
                        continue
                    noise_hi = rnd.getrandbits(bits)
                    emb = []
                    for v in vals:
                        x = (v << sh) & ((1 << bits) - 1)
                        # random bits above and below the inspected digit must not matter
                        hi = (noise_hi >> (sh + 3)) << (sh + 3) if sh + 3 < bits else 0
                        lo = rnd.getrandbits(sh) if sh > 0 else 0
                        emb.append((x | hi | lo) & ((1 << bits) - 1))
                    s = Seqn.from_values(emb)
                    b.util(m, ty=ty, shift=sh, alpha=s.json_alpha(), seq=s.flat_ids())
    # the randomised generators of perf_and_test_utils (outside the listed properties: notes only)
    for n in (0, 1, 7, 300):
        for sigma in (1, 2, 4, 255, 256):
            b.tu("gen_sequence", n=n, sigma=sigma)
        for r in (1, 2, 1000, 1 << 30):
            b.tu("gen_queries", n=n, range=r)
            b.tu("gen_queries_pairs", n=n, range=r, sigma=rnd.choice([1, 4, 256, 70000]))
        for u in (n + 1, n + 2, 2 * n + 5, 100000):
            b.tu("gen_strictly_increasing_sequence", n=n, u=u)
        if n > 0:
            sq = rand_seq(rnd, n, [0, 3, 7, 200, 255])
            b.tu("gen_rank_queries", n=rnd.choice([1, 20]), s=sq)
            b.tu("gen_select_queries", n=rnd.choice([1, 20]), s=sq)
            v = sorted(rnd.sample(range(0, 4 * n + 3), n))
            b.tu("negate_vector", v=v)
    b.tu("negate_vector", v=[0])
    b.tu("negate_vector", v=[5])
    b.tu("negate_vector", v=[0, 1, 2, 3])
    # text_remap: all byte strings <= 4 over 4 values, plus random ones
    vals4 = [0, 7, 200, 255]
    for ln in range(0, 5 if tier == "thorough" else 4):
        for w in itertools.product(vals4, repeat=ln):
            b.util("text_remap", bytes=list(w))
    allb = list(range(256))
    b.util("text_remap", bytes=allb)
    b.util("text_remap", bytes=allb[::-1] + [255, 0, 128])
    b.util("text_remap", bytes=[x for x in allb if x != 77] * 2)
    sh = list(allb) * 2
    rnd.shuffle(sh)
    b.util("text_remap", bytes=sh)
    for _ in range(40 if tier == "quick" else 400):
        k = rnd.choice([1, 2, 5, 50, 255, 256])
        alph = rnd.sample(range(256), k)
        b.util("text_remap", bytes=[rnd.choice(alph) for _ in range(rnd.choice([1, 10, 300]))])
    return b


# ------------------------------------------------------------------ C18 purity and sharing


def query_batch(rnd, fam, s, ty, kind):
    n = len(s)
    pos = position_args(n, extra=s.boundaries(), rnd=rnd, k=20, huge=(-1,))
    if fam == "T":
        cs = [sym(c) for c in query_symbols(rnd, s, ty)]
        batch = [{"m": "get", "cs": [], "as": pos}, {"m": "rank", "cs": cs, "as": pos}, {"m": "select", "cs": cs, "as": [0, 1, 2, 7, 100, 5000, -1]}]
        if kind not in ("WT", "HWT"):
            batch.append({"m": "rank_prefetch", "cs": cs, "as": pos})
        return batch
    if fam == "Q":
        batch = [{"m": "get", "cs": [], "as": pos}]
        if kind != "QV":
            batch += [{"m": "rank", "cs": [0, 1, 2, 3, 4], "as": pos}, {"m": "select", "cs": [0, 1, 2, 3], "as": [0, 1, 50, 8192, -1]},
                      {"m": "occs", "cs": [0, 1, 2, 3], "as": [0]}, {"m": "occs_smaller", "cs": [0, 1, 2, 3], "as": [0]}]
        return batch
    batch = [{"m": "get", "cs": [], "as": pos}]
    ks = [0, 1, 31, 32, 1023, 1024, 8192, n // 3, -1]
    if kind in ("RSN", "RSW"):
        batch += [{"m": "rank1", "cs": [], "as": pos}, {"m": "rank0", "cs": [], "as": pos}]
    if kind in ("RSN", "RSW", "DA0", "DA1"):
        batch.append({"m": "select1", "cs": [], "as": ks})
    if kind in ("RSN", "RSW", "DA1"):
        batch.append({"m": "select0", "cs": [], "as": ks})
    if kind in ("BV",):
        batch += [{"m": "get_bits", "cs": [], "as": [[p, 17] for p in pos[:20]]}, {"m": "get_word", "cs": [], "as": list(range(min(8, (n + 63) // 64)))}]
    return batch


def reorder_batch(rnd, batch, n):
    """the same queries in descending and in random order, plus scans of consecutive indices:
    an answer must not depend on what was asked before"""
    out = []
    for q in batch:
        as_ = list(q["as"])
        out.append(q)
        out.append({"m": q["m"], "cs": q["cs"], "as": as_[::-1]})
        sh = list(as_)
        rnd.shuffle(sh)
        out.append({"m": q["m"], "cs": q["cs"], "as": sh})
        if q["m"] in ("select1", "select0", "select"):
            # (large, then small) occurrence indices inside one sampling group (1024 for the bit structures, 8192 for
            # the quad ones), far enough apart to lie in different blocks: a cursor or hint left by the first query
            # must not influence the second
            g = 8192 if q["m"] == "select" else 1024
            pairs = []
            for base in (0, g, 2 * g, 5 * g):
                for (L, S) in ((g - 124, g // 3), (g - 24, g // 2 + 88), (2 * g // 3, g // 10), (g - 1, g // 2), (g // 2, 3)):
                    pairs += [base + L, base + S]
            out.append({"m": q["m"], "cs": q["cs"], "as": pairs})
        if q["m"] in ("select1", "select0", "select", "rank1", "rank0", "rank", "get"):
            # many random arguments in random order: pairs (large, then small) inside one sampling bucket
            out.append({"m": q["m"], "cs": q["cs"], "as": [rnd.randrange(0, n + 1) for _ in range(80)]})
            st = rnd.randrange(0, max(1, n // 2))
            scan = list(range(st, min(st + 120, n + 1)))
            big = [x for x in (n // 2, n // 2 + 1, n // 3, 5, 900, 901, 100, 3, n // 2) if 0 <= x <= n]
            out.append({"m": q["m"], "cs": q["cs"], "as": scan + big + scan[::-1]})
    return out


def camp_c18(rnd, tier):
    b = Beh()
    for rep in range(1 if tier == "quick" else 3):
        b.reset()
        for (o, fam, s, ty, kind) in all_kind_objects(b, rnd, tier):
            if kind == "BVM":
                continue
            batch = reorder_batch(rnd, query_batch(rnd, fam, s, ty, kind), len(s))
            b.pure(o, batch)
            # the sequential answers are themselves judged by the clause tables
            for q in batch:
                b.qg(o, q["m"], q["cs"], q["as"])
            b.thr(o, rnd.choice([2, 8, 16]), rnd.choice([10, 30]) if tier == "quick" else rnd.choice([10, 40]), batch)
            b.pure(o, batch)
            b.drop(o)
    return b


# ------------------------------------------------------------------ model-fidelity report


def camp_fidelity(rnd, tier, fams):
    """objects whose private index tables are dumped and recomputed by the Level-1 models at the real constants"""
    b = Beh()
    big = tier == "thorough"
    if "RSQ" in fams:
        for kind in ("RSQ256", "RSQ512"):
            # lengths whose last partial block is block 6 of its superblock (the sentinel block counter matters),
            # multiples of the superblock size, and arbitrary ones
            n = rnd.choice([1600, 2049, 3300 if kind == "RSQ512" else 3650, 4097, 5000]) if not big else rnd.choice([9000, 16000, 17000, 20481])
            s = Seqn.from_values(skewed_seq(rnd, n, [0, 1, 2, 3], rnd.choice([1.0, 1.5, 3.0])))
            b.reset()
            o = b.newq(kind, "u8", "collect", s)
            b.add({"k": "internals", "o": o})
        if big:
            s = Seqn.from_runs([([0, 1], 8200), ([2], 300), ([0], 8200), ([3, 1, 0], 100)])
            b.reset()
            o = b.newq("RSQ256", "u8", "collect", s)
            b.add({"k": "internals", "o": o})
    if "RSBin" in fams:
        for kind in ("RSN", "RSW"):
            n = rnd.choice([1500, 3000, 4609]) if not big else rnd.choice([9000, 20000, 36865])
            dens = rnd.choice([0.1, 0.5, 0.9])
            s = Seqn.from_values([1 if rnd.random() < dens else 0 for _ in range(n)])
            b.reset()
            o = b.newb(kind, "new", s)
            b.add({"k": "internals", "o": o})
    if "DArr" in fams:
        runs = darray_group(rnd, "dense", 1) + (darray_group(rnd, "sparse", 1) if big else []) + darray_group(rnd, "partial", 1)
        s = Seqn.from_runs(runs)
        b.reset()
        o = b.newb("DA1" if big or len(s) < 20000 else "DA0", "new", s)
        b.add({"k": "internals", "o": o})
    if "Huff4" in fams or "Huff2" in fams:
        kinds = (QUAD_HUFF if "Huff4" in fams else []) + (["HWT"] if "Huff2" in fams else [])
        for kind in (kinds if big else rnd.sample(kinds, min(2, len(kinds)))):
            shapes = [x for x in huff_input_shapes(rnd, "quick", "u16", binary=(kind == "HWT")) if 0 < len(x[1]) <= (4000 if big else 700) and len(x[1].used_values()) <= 40]
            for name, s in rnd.sample(shapes, min(len(shapes), 3 if big else 2)):
                b.reset()
                o = b.newt(kind, "u16", "from_vec", s, tie=rnd.choice([None, {"mode": "seed", "seed": rnd.randrange(1 << 20)}, {"mode": "desc"}]))
                b.add({"k": "internals", "o": o})
    if "WM" in fams:
        for kind in (QUAD_PLAIN[:2] + ["WT"]):
            s = Seqn.from_values(rand_seq(rnd, 50, [0, 1, rnd.choice([3, 4, 15, 16, 255, 256, 70000])]))
            b.reset()
            o = b.newt(kind, "u32", "new", s)
            b.add({"k": "internals", "o": o})
    return b
