"""Behaviour building blocks: inputs (alphabet + segments), argument sets, events.

A behaviour is a list of JSON-able dicts (one call per line) that harness/qwt-drive
executes.  Nothing here knows what the right answer is, with one exception that
the specification re-checks: the *preconditions* of unchecked calls are computed
from the plain sequence so that no undefined behaviour is ever requested.
"""
import random

LIMB = 24
TY_BITS = {"u8": 8, "u16": 16, "u32": 32, "u64": 64, "usize": 64, "u128": 128}
UTYPES = ["u8", "u16", "u32", "u64", "usize", "u128"]
ITYPES = ["i8", "i16", "i32", "i64", "isize", "i128"]
QUAD_PLAIN = ["QWT256", "QWT512", "QWT256Pfs", "QWT512Pfs"]
QUAD_HUFF = ["HQWT256", "HQWT512", "HQWT256Pfs", "HQWT512Pfs"]
TREE_KINDS = QUAD_PLAIN + QUAD_HUFF + ["WT", "HWT"]
HUGE = [-1, -2, -3, -4, -5, -6, -7, -8]  # tokens understood by the harness (usize::MAX, 2^32, ...)
INT_MAX = (1 << 31) - 2


def sym(v):
    """[sign, limbs...] most significant limb first"""
    s = 1 if v < 0 else 0
    v = abs(v)
    limbs = []
    while v > 0:
        limbs.append(v & ((1 << LIMB) - 1))
        v >>= LIMB
    return [s] + limbs[::-1]


def unsym(a):
    v = 0
    for l in a[1:]:
        v = (v << LIMB) | l
    return -v if a[0] == 1 else v


class Seqn:
    """a sequence given as alphabet + segments; ids are 1-based indices into alpha"""

    def __init__(self, alpha, segs):
        self.alpha = list(alpha)
        self.segs = [(list(p), int(r)) for p, r in segs if r > 0 and len(p) > 0]
        self._flat = None

    @staticmethod
    def from_values(vals):
        """explicit sequence of integers; alphabet in order of first occurrence"""
        ids = {}
        alpha = []
        pat = []
        for v in vals:
            if v not in ids:
                alpha.append(v)
                ids[v] = len(alpha)
            pat.append(ids[v])
        return Seqn(alpha, [(pat, 1)] if pat else [])

    @staticmethod
    def from_runs(runs):
        """runs: list of (list of values, repetitions)"""
        ids = {}
        alpha = []
        segs = []
        for vals, rep in runs:
            pat = []
            for v in vals:
                if v not in ids:
                    alpha.append(v)
                    ids[v] = len(alpha)
                pat.append(ids[v])
            segs.append((pat, rep))
        return Seqn(alpha, segs)

    def flat_ids(self):
        if self._flat is None:
            out = []
            for p, r in self.segs:
                out.extend(p * r)
            self._flat = out
        return self._flat

    def values(self):
        a = self.alpha
        return [a[i - 1] for i in self.flat_ids()]

    def __len__(self):
        return sum(len(p) * r for p, r in self.segs)

    def used_values(self):
        ids = set()
        for p, r in self.segs:
            ids.update(p)
        return sorted(self.alpha[i - 1] for i in ids)

    def boundaries(self):
        """positions where segments start/end"""
        b = []
        pos = 0
        for p, r in self.segs:
            pos += len(p) * r
            b.append(pos)
        return b

    def json_alpha(self):
        return [sym(v) for v in self.alpha]

    def json_segs(self):
        return [{"pat": p, "rep": r} for p, r in self.segs]


def clip_args(xs, lo=0):
    """sorted unique list of argument tokens; values >= 2^31-1 are not literal"""
    out = []
    seen = set()
    for x in xs:
        if x in seen:
            continue
        if x < 0:
            if x in HUGE:
                seen.add(x)
                out.append(x)
            continue
        if x > INT_MAX:
            continue
        seen.add(x)
        out.append(x)
    return out


def around(points, n_max=None):
    out = []
    for p in points:
        for d in (-1, 0, 1):
            q = p + d
            if q >= 0:
                out.append(q)
    return out


def position_args(n, extra=(), rnd=None, k=24, huge=(-1, -2)):
    """position arguments for a structure of length n"""
    xs = [0, 1, 2, n - 1, n, n + 1, n + 2, n // 2]
    xs += around(extra)
    for c in (63, 64, 127, 128, 255, 256, 511, 512, 1023, 1024, 2047, 2048, 4095, 4096, 8191, 8192, 16384, 32767, 32768, 65535, 65536):
        if c <= n + 2:
            xs += [c - 1, c, c + 1]
    if rnd is not None and n > 0:
        xs += [rnd.randrange(0, n + 1) for _ in range(k)]
    xs = [x for x in xs if x >= 0]
    return clip_args(sorted(set(xs)) + list(huge))


def occ_args(cnt, rnd=None, k=8, huge=(-1,)):
    xs = [0, 1, cnt - 1, cnt, cnt + 1, cnt // 2]
    for c in (31, 32, 33, 1023, 1024, 1025, 8191, 8192, 8193, 16384, 16385):
        if c <= cnt + 1:
            xs.append(c)
    if rnd is not None and cnt > 0:
        xs += [rnd.randrange(0, cnt) for _ in range(k)]
    xs = [x for x in xs if x >= 0]
    return clip_args(sorted(set(xs)) + list(huge))


class Beh:
    """accumulates the events of one behaviour file"""

    def __init__(self):
        self.ev = []
        self.next_id = 1

    def reset(self):
        self.ev.append({"k": "reset"})
        self.next_id = 1

    def fresh(self):
        i = self.next_id
        self.next_id += 1
        return i

    def add(self, e):
        self.ev.append(e)
        return e

    # constructors -----------------------------------------------------
    def newt(self, kind, ty, path, s, tie=None, nv=0):
        o = self.fresh()
        e = {"k": "newt", "o": o, "kind": kind, "ty": ty, "path": path,
             "alpha": s.json_alpha(), "segs": s.json_segs(), "nv": nv}
        if tie is not None:
            e["tie"] = tie
        self.add(e)
        return o

    def newq(self, kind, ty, path, s, nv=0):
        o = self.fresh()
        self.add({"k": "newq", "o": o, "kind": kind, "ty": ty, "path": path,
                  "alpha": s.json_alpha(), "segs": s.json_segs(), "nv": nv})
        return o

    def newb(self, kind, path, s=None, ty="usize", n=0, pos=None, nv=0):
        o = self.fresh()
        e = {"k": "newb", "o": o, "kind": kind, "path": path, "ty": ty, "n": n, "nv": nv}
        if s is not None:
            # bit patterns are given directly (no alphabet)
            e["segs"] = [{"pat": [s.alpha[i - 1] for i in p], "rep": r} for p, r in s.segs]
        else:
            e["segs"] = []
        if pos is not None:
            e["pos"] = [sym(p) for p in pos]
        self.add(e)
        return o

    # observations -----------------------------------------------------
    def meta(self, o):
        self.add({"k": "meta", "o": o})

    def qg(self, o, m, cs, as_):
        if len(as_) == 0:
            return
        self.add({"k": "qg", "o": o, "m": m, "cs": cs, "as": as_})

    def relm(self, o, rel, ma, mb, cs, as_):
        if len(as_) == 0:
            return
        self.add({"k": "relm", "o": o, "rel": rel, "ma": ma, "mb": mb, "cs": cs, "as": as_})

    def relo(self, oa, ob, rel, m, cs, as_):
        if len(as_) == 0:
            return
        self.add({"k": "relo", "oa": oa, "ob": ob, "rel": rel, "m": m, "cs": cs, "as": as_})

    def uq(self, o, m, mc, cs, as_):
        if len(as_) == 0:
            return
        self.add({"k": "uq", "o": o, "m": m, "mc": mc, "cs": cs, "as": as_})

    def conv(self, src, m, keep=1):
        dst = self.fresh()
        self.add({"k": "conv", "src": src, "dst": dst, "m": m, "keep": keep})
        return dst

    def eq(self, a, b):
        self.add({"k": "eq", "oa": a, "ob": b})

    def ith(self, o, m, ops, pos=0, keep=1):
        self.add({"k": "ith", "o": o, "m": m, "a": [pos], "ops": list(ops), "keep": keep})

    def mut(self, o, m, **kw):
        e = {"k": "mut", "o": o, "m": m}
        e.update(kw)
        self.add(e)

    def drop(self, o):
        self.add({"k": "drop", "o": o})

    def space(self, o):
        self.add({"k": "space", "o": o})

    # bit structures with positions beyond 2^32: `base` zeros followed by the tail s
    def newbig(self, kind, base, s, fill=0):
        o = self.fresh()
        self.add({"k": "newbig", "o": o, "kind": kind, "base": sym(base), "fill": fill,
                  "segs": [{"pat": [s.alpha[i - 1] for i in p], "rep": r} for p, r in s.segs]})
        return o

    def qbig(self, o, m, rel, form="rel"):
        self.add({"k": "qbig", "o": o, "m": m, "rel": list(rel), "form": form})

    # long quad structures: `base` copies of the symbol f followed by the tail s (symbols 0..3)
    def newbigq(self, kind, base, f, s):
        o = self.fresh()
        self.add({"k": "newbigq", "o": o, "kind": kind, "base": base, "f": f, "alpha": s.json_alpha(), "segs": s.json_segs()})
        return o

    def qbigq(self, o, m, c, rel, form="rel"):
        self.add({"k": "qbigq", "o": o, "m": m, "c": c, "rel": list(rel), "form": form})

    def ithbig(self, o, m, rel=0, cnt=4):
        self.add({"k": "ithbig", "o": o, "m": m, "rel": rel, "cnt": cnt})

    def metabig(self, o):
        self.add({"k": "metabig", "o": o})

    def tu(self, m, **kw):
        e = {"k": "tu", "m": m}
        e.update(kw)
        self.add(e)

    def spstd(self, shape, lens):
        self.add({"k": "spstd", "shape": shape, "lens": list(lens)})

    def pure(self, o, batch):
        self.add({"k": "pure", "o": o, "batch": batch})

    def thr(self, o, t, reps, batch):
        self.add({"k": "thr", "o": o, "t": t, "reps": reps, "batch": batch})

    def util(self, m, **kw):
        e = {"k": "util", "m": m}
        e.update(kw)
        self.add(e)
