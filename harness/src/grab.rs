//! A minimal serde Serializer that extracts one top-level struct field holding a
//! sequence of unsigned integers (used to read `lens`, the per-level lengths of the
//! Huffman-shaped trees, which the public API does not expose).
use serde::ser::{self, Serialize};
use std::fmt;

#[derive(Debug)]
pub struct GrabErr;
impl fmt::Display for GrabErr {
    fn fmt(&self, f: &mut fmt::Formatter<'_>) -> fmt::Result {
        write!(f, "grab error")
    }
}
impl std::error::Error for GrabErr {}
impl ser::Error for GrabErr {
    fn custom<T: fmt::Display>(_: T) -> Self {
        GrabErr
    }
}

pub struct Grab {
    target: &'static str,
    level: usize,   // struct nesting level
    active: bool,   // inside the target field
    pub out: Vec<u64>,
    pub found: bool,
}

pub fn grab_field<T: Serialize>(v: &T, target: &'static str) -> Option<Vec<u64>> {
    let mut g = Grab { target, level: 0, active: false, out: vec![], found: false };
    v.serialize(&mut g).ok()?;
    if g.found {
        Some(g.out)
    } else {
        None
    }
}

macro_rules! num {
    ($name:ident, $t:ty) => {
        fn $name(self, v: $t) -> Result<(), GrabErr> {
            if self.active {
                self.out.push(v as u64);
            }
            Ok(())
        }
    };
}

impl<'a> ser::Serializer for &'a mut Grab {
    type Ok = ();
    type Error = GrabErr;
    type SerializeSeq = Self;
    type SerializeTuple = Self;
    type SerializeTupleStruct = Self;
    type SerializeTupleVariant = Self;
    type SerializeMap = Self;
    type SerializeStruct = Self;
    type SerializeStructVariant = Self;
    num!(serialize_bool, bool);
    num!(serialize_i8, i8);
    num!(serialize_i16, i16);
    num!(serialize_i32, i32);
    num!(serialize_i64, i64);
    num!(serialize_u8, u8);
    num!(serialize_u16, u16);
    num!(serialize_u32, u32);
    num!(serialize_u64, u64);
    num!(serialize_u128, u128);
    num!(serialize_i128, i128);
    fn serialize_f32(self, _: f32) -> Result<(), GrabErr> { Ok(()) }
    fn serialize_f64(self, _: f64) -> Result<(), GrabErr> { Ok(()) }
    fn serialize_char(self, _: char) -> Result<(), GrabErr> { Ok(()) }
    fn serialize_str(self, _: &str) -> Result<(), GrabErr> { Ok(()) }
    fn serialize_bytes(self, _: &[u8]) -> Result<(), GrabErr> { Ok(()) }
    fn serialize_none(self) -> Result<(), GrabErr> { Ok(()) }
    fn serialize_some<T: ?Sized + Serialize>(self, v: &T) -> Result<(), GrabErr> {
        if self.active { v.serialize(self) } else { Ok(()) }
    }
    fn serialize_unit(self) -> Result<(), GrabErr> { Ok(()) }
    fn serialize_unit_struct(self, _: &'static str) -> Result<(), GrabErr> { Ok(()) }
    fn serialize_unit_variant(self, _: &'static str, _: u32, _: &'static str) -> Result<(), GrabErr> { Ok(()) }
    fn serialize_newtype_struct<T: ?Sized + Serialize>(self, _: &'static str, v: &T) -> Result<(), GrabErr> {
        v.serialize(self)
    }
    fn serialize_newtype_variant<T: ?Sized + Serialize>(self, _: &'static str, _: u32, _: &'static str, v: &T) -> Result<(), GrabErr> {
        if self.active { v.serialize(self) } else { Ok(()) }
    }
    fn serialize_seq(self, _: Option<usize>) -> Result<Self, GrabErr> { Ok(self) }
    fn serialize_tuple(self, _: usize) -> Result<Self, GrabErr> { Ok(self) }
    fn serialize_tuple_struct(self, _: &'static str, _: usize) -> Result<Self, GrabErr> { Ok(self) }
    fn serialize_tuple_variant(self, _: &'static str, _: u32, _: &'static str, _: usize) -> Result<Self, GrabErr> { Ok(self) }
    fn serialize_map(self, _: Option<usize>) -> Result<Self, GrabErr> { Ok(self) }
    fn serialize_struct(self, _: &'static str, _: usize) -> Result<Self, GrabErr> {
        self.level += 1;
        Ok(self)
    }
    fn serialize_struct_variant(self, _: &'static str, _: u32, _: &'static str, _: usize) -> Result<Self, GrabErr> { Ok(self) }
}

macro_rules! compound {
    ($tr:ident, $m:ident) => {
        impl<'a> ser::$tr for &'a mut Grab {
            type Ok = ();
            type Error = GrabErr;
            fn $m<T: ?Sized + Serialize>(&mut self, v: &T) -> Result<(), GrabErr> {
                if self.active { v.serialize(&mut **self) } else { Ok(()) }
            }
            fn end(self) -> Result<(), GrabErr> { Ok(()) }
        }
    };
}
compound!(SerializeSeq, serialize_element);
compound!(SerializeTuple, serialize_element);
compound!(SerializeTupleStruct, serialize_field);
compound!(SerializeTupleVariant, serialize_field);

impl<'a> ser::SerializeMap for &'a mut Grab {
    type Ok = ();
    type Error = GrabErr;
    fn serialize_key<T: ?Sized + Serialize>(&mut self, _: &T) -> Result<(), GrabErr> { Ok(()) }
    fn serialize_value<T: ?Sized + Serialize>(&mut self, v: &T) -> Result<(), GrabErr> {
        if self.active { v.serialize(&mut **self) } else { Ok(()) }
    }
    fn end(self) -> Result<(), GrabErr> { Ok(()) }
}

impl<'a> ser::SerializeStruct for &'a mut Grab {
    type Ok = ();
    type Error = GrabErr;
    fn serialize_field<T: ?Sized + Serialize>(&mut self, key: &'static str, v: &T) -> Result<(), GrabErr> {
        if self.active {
            return v.serialize(&mut **self);
        }
        if self.level == 1 && key == self.target {
            self.active = true;
            self.found = true;
            let r = v.serialize(&mut **self);
            self.active = false;
            return r;
        }
        Ok(())
    }
    fn end(self) -> Result<(), GrabErr> {
        self.level -= 1;
        Ok(())
    }
}
impl<'a> ser::SerializeStructVariant for &'a mut Grab {
    type Ok = ();
    type Error = GrabErr;
    fn serialize_field<T: ?Sized + Serialize>(&mut self, _: &'static str, v: &T) -> Result<(), GrabErr> {
        if self.active { v.serialize(&mut **self) } else { Ok(()) }
    }
    fn end(self) -> Result<(), GrabErr> { Ok(()) }
}
