//! Dynamic wrappers around every public structure of qwt.
//! Each wrapper only forwards calls and renders results; it contains no oracle.
use crate::fmt::*;
use num_traits::AsPrimitive;
use qwt::*;
use serde::{de::DeserializeOwned, Serialize};
use serde_json::{json, Value};
use std::any::Any;
use std::panic::{catch_unwind, AssertUnwindSafe};

thread_local! {
    pub static LAST_PANIC: std::cell::RefCell<String> = const { std::cell::RefCell::new(String::new()) };
}

/// Runs `f`, turning a panic into `Err(message)`.
pub fn guard<R>(f: impl FnOnce() -> R) -> Result<R, String> {
    match catch_unwind(AssertUnwindSafe(f)) {
        Ok(r) => Ok(r),
        Err(e) => {
            let msg = if let Some(s) = e.downcast_ref::<&str>() {
                s.to_string()
            } else if let Some(s) = e.downcast_ref::<String>() {
                s.clone()
            } else {
                LAST_PANIC.with(|p| p.borrow().clone())
            };
            Err(msg)
        }
    }
}

pub fn gi(f: impl FnOnce() -> i64) -> i64 {
    guard(f).unwrap_or(PANIC)
}

pub fn gv(f: impl FnOnce() -> Value) -> Value {
    guard(f).unwrap_or_else(|_| json!([PANIC]))
}

pub trait Obj: Send + Sync {
    fn as_any(&self) -> &dyn Any;
    fn kind(&self) -> &'static str;
    fn ty(&self) -> &'static str {
        ""
    }
    /// can `c` be passed as a symbol argument?
    fn fits(&self, _c: u128) -> bool {
        true
    }
    /// observation `m` with symbol `c`, integer arguments `a`; int result or code
    fn call(&self, _m: &str, _c: u128, _a: &[usize]) -> i64 {
        NA
    }
    /// observations returning a symbol / word (rendered as an array)
    fn callv(&self, _m: &str, _a: &[usize]) -> Value {
        json!([NA])
    }
    /// further public methods outside the query traits (prefetch hints, line counts)
    fn extra(&self, _m: &str, _a: &[usize]) -> i64 {
        NA
    }
    fn meta(&self) -> Value;
    fn mutate(&mut self, _ev: &Value) -> Option<Result<(), String>> {
        None
    }
    fn clone_obj(&self) -> Option<Box<dyn Obj>> {
        None
    }
    fn eq_obj(&self, _o: &dyn Obj) -> Option<bool> {
        None
    }
    fn ser(&self) -> Option<Result<Vec<u8>, String>> {
        None
    }
    fn de(&self, _b: &[u8]) -> Option<Result<Box<dyn Obj>, String>> {
        None
    }
    fn space(&self) -> Option<(usize, f64, f64, f64)> {
        None
    }
    fn self_size(&self) -> usize;
    fn internals(&self) -> Value {
        Value::Null
    }
    /// a top-level field of the serialized form that holds unsigned integers
    fn field(&self, _name: &'static str) -> Option<Vec<u64>> {
        None
    }
    /// run a borrowing iterator obtained by `m` (at `pos`) through the call word `ops`
    fn iter_run(&self, _m: &str, _pos: usize, _ops: &str) -> Option<Vec<Value>> {
        None
    }
    fn into_iter_run(self: Box<Self>, _ops: &str) -> Option<Vec<Value>> {
        None
    }
    fn convert(self: Box<Self>, _m: &str) -> Option<Result<Box<dyn Obj>, String>> {
        None
    }
    /// rebuild an object of the same type from this object's own iterator
    fn collect_iter(&self) -> Option<Result<Box<dyn Obj>, String>> {
        None
    }
}

// ---------------------------------------------------------------- iterators

fn it_entry_sym(r: Option<u128>) -> Value {
    match r {
        None => json!([0]),
        Some(v) => {
            let mut a = vec![1i64, 0];
            a.extend(limbs(v));
            json!(a)
        }
    }
}
fn it_entry_int(r: Option<usize>) -> Value {
    match r {
        None => json!([0]),
        Some(v) => json!([1, res_val(v)]),
    }
}

/// size_hint as [3, lower, upper or -1]
fn size_hint_entry(h: (usize, Option<usize>)) -> Value {
    json!([3, res_val(h.0), h.1.map(res_val).unwrap_or(NONE)])
}

/// n = next, b = next_back, l = len
pub fn run_de_iter<I, T>(mut it: I, ops: &str, f: impl Fn(T) -> u128) -> Vec<Value>
where
    I: DoubleEndedIterator<Item = T> + ExactSizeIterator,
{
    let mut out = Vec::new();
    for op in ops.chars() {
        let r = guard(|| match op {
            'n' => it_entry_sym(it.next().map(&f)),
            'b' => it_entry_sym(it.next_back().map(&f)),
            'j' => it_entry_sym(it.nth(1).map(&f)),
            'k' => it_entry_sym(it.nth(3).map(&f)),
            'B' => it_entry_sym(it.nth_back(2).map(&f)),
            'l' => json!([2, res_val(it.len())]),
            'h' => size_hint_entry(it.size_hint()),
            _ => json!([NA]),
        });
        match r {
            Ok(v) => out.push(v),
            Err(_) => {
                out.push(json!([PANIC]));
                // iterator state unspecified after a panic: stop here
                break;
            }
        }
    }
    out
}

pub fn run_fwd_iter<I, T>(mut it: I, ops: &str, f: impl Fn(T) -> usize, len: Option<&dyn Fn(&I) -> usize>) -> Vec<Value>
where
    I: Iterator<Item = T>,
{
    let mut out = Vec::new();
    for op in ops.chars() {
        let r = guard(|| match op {
            'n' => it_entry_int(it.next().map(&f)),
            'j' => it_entry_int(it.nth(1).map(&f)),
            'k' => it_entry_int(it.nth(3).map(&f)),
            'l' => match len {
                Some(l) => json!([2, res_val(l(&it))]),
                None => json!([NA]),
            },
            'h' => size_hint_entry(it.size_hint()),
            _ => json!([NA]),
        });
        match r {
            Ok(v) => out.push(v),
            Err(_) => {
                out.push(json!([PANIC]));
                break;
            }
        }
    }
    out
}

fn space_of<S: SpaceUsage>(s: &S) -> (usize, f64, f64, f64) {
    (
        s.space_usage_byte(),
        s.space_usage_KiB(),
        s.space_usage_MiB(),
        s.space_usage_GiB(),
    )
}

fn ser_of<S: Serialize>(s: &S) -> Result<Vec<u8>, String> {
    match guard(|| bincode::serialize(s)) {
        Ok(Ok(b)) => Ok(b),
        Ok(Err(e)) => Err(format!("serialize error: {e}")),
        Err(p) => Err(format!("panic: {p}")),
    }
}

fn de_of<S: DeserializeOwned + Obj + 'static>(b: &[u8]) -> Result<Box<dyn Obj>, String> {
    match guard(|| bincode::deserialize::<S>(b)) {
        Ok(Ok(v)) => Ok(Box::new(v)),
        Ok(Err(e)) => Err(format!("deserialize error: {e}")),
        Err(p) => Err(format!("panic: {p}")),
    }
}

fn field_of<S: Serialize>(s: &S, name: &'static str) -> Option<Vec<u64>> {
    guard(|| crate::grab::grab_field(s, name)).ok().flatten()
}

fn internals_of<S: Serialize>(s: &S) -> Value {
    guard(|| crate::tojson::to_json(s)).unwrap_or(Value::Null)
}

// ---------------------------------------------------------------- trees

pub trait TreeTy:
    quadwt::WTIndexable
    + AsPrimitive<u128>
    + Serialize
    + Default
    + DeserializeOwned
    + Send
    + Sync
    + std::fmt::Debug
    + 'static
{
    const NAME: &'static str;
    fn from_u128(v: u128) -> Self;
    fn max_u128() -> u128;
}
macro_rules! tree_ty {
    ($($t:ty),*) => {$(
        impl TreeTy for $t {
            const NAME: &'static str = stringify!($t);
            fn from_u128(v: u128) -> Self { v as $t }
            fn max_u128() -> u128 { <$t>::MAX as u128 }
        }
    )*};
}
tree_ty!(u8, u16, u32, u64, usize, u128);

macro_rules! tree_obj {
    ($alias:ident, $kind:expr, sigma: $has_sigma:tt, prefetch: $has_pf:tt) => {
        impl<T: TreeTy> Obj for $alias<T>
        where
            usize: AsPrimitive<T>,
        {
            fn as_any(&self) -> &dyn Any {
                self
            }
            fn kind(&self) -> &'static str {
                $kind
            }
            fn ty(&self) -> &'static str {
                T::NAME
            }
            fn fits(&self, c: u128) -> bool {
                c <= T::max_u128()
            }
            fn call(&self, m: &str, c: u128, a: &[usize]) -> i64 {
                let c = T::from_u128(c);
                match m {
                    "rank" => res_opt(self.rank(c, a[0])),
                    "select" => res_opt(self.select(c, a[0])),
                    "rank_prefetch" => tree_obj!(@pf $has_pf, res_opt(self.rank_prefetch(c, a[0]))),
                    "rank_unchecked" => res_val(unsafe { self.rank_unchecked(c, a[0]) }),
                    "select_unchecked" => res_val(unsafe { self.select_unchecked(c, a[0]) }),
                    "rank_prefetch_unchecked" => {
                        tree_obj!(@pf $has_pf, res_val(unsafe { self.rank_prefetch_unchecked(c, a[0]) }))
                    }
                    _ => NA,
                }
            }
            fn callv(&self, m: &str, a: &[usize]) -> Value {
                match m {
                    "get" => res_sym(self.get(a[0]).map(|v| v.as_())),
                    "get_unchecked" => sym(unsafe { self.get_unchecked(a[0]) }.as_()),
                    _ => json!([NA]),
                }
            }
            fn meta(&self) -> Value {
                json!({
                    "len": gi(|| res_val(self.len())),
                    "is_empty": gi(|| self.is_empty() as i64),
                    "sigma": tree_obj!(@sigma $has_sigma, self),
                    "n_levels": gi(|| res_val(self.n_levels())),
                })
            }
            fn clone_obj(&self) -> Option<Box<dyn Obj>> {
                Some(Box::new(self.clone()))
            }
            fn eq_obj(&self, o: &dyn Obj) -> Option<bool> {
                o.as_any().downcast_ref::<Self>().map(|o| self == o)
            }
            fn ser(&self) -> Option<Result<Vec<u8>, String>> {
                Some(ser_of(self))
            }
            fn de(&self, b: &[u8]) -> Option<Result<Box<dyn Obj>, String>> {
                Some(de_of::<Self>(b))
            }
            fn space(&self) -> Option<(usize, f64, f64, f64)> {
                Some(space_of(self))
            }
            fn self_size(&self) -> usize {
                std::mem::size_of::<Self>()
            }
            fn internals(&self) -> Value {
                internals_of(self)
            }
            fn field(&self, name: &'static str) -> Option<Vec<u64>> {
                field_of(self, name)
            }
            fn iter_run(&self, m: &str, _pos: usize, ops: &str) -> Option<Vec<Value>> {
                match m {
                    "iter" => Some(run_de_iter(self.iter(), ops, |v: T| v.as_())),
                    "ref_into_iter" => Some(run_de_iter((&*self).into_iter(), ops, |v: T| v.as_())),
                    _ => None,
                }
            }
            fn into_iter_run(self: Box<Self>, ops: &str) -> Option<Vec<Value>> {
                Some(run_de_iter((*self).into_iter(), ops, |v: T| v.as_()))
            }
            fn collect_iter(&self) -> Option<Result<Box<dyn Obj>, String>> {
                Some(guard(|| Box::new(self.iter().collect::<Self>()) as Box<dyn Obj>))
            }
        }
    };
    (@pf true, $e:expr) => { $e };
    (@pf false, $e:expr) => { NA };
    (@sigma true, $s:expr) => { gv(|| res_sym($s.sigma().map(|v| v.as_()))) };
    (@sigma false, $s:expr) => { json!([NA]) };
}

tree_obj!(QWT256, "QWT256", sigma: true, prefetch: true);
tree_obj!(QWT512, "QWT512", sigma: true, prefetch: true);
tree_obj!(QWT256Pfs, "QWT256Pfs", sigma: true, prefetch: true);
tree_obj!(QWT512Pfs, "QWT512Pfs", sigma: true, prefetch: true);
tree_obj!(HQWT256, "HQWT256", sigma: false, prefetch: true);
tree_obj!(HQWT512, "HQWT512", sigma: false, prefetch: true);
tree_obj!(HQWT256Pfs, "HQWT256Pfs", sigma: false, prefetch: true);
tree_obj!(HQWT512Pfs, "HQWT512Pfs", sigma: false, prefetch: true);
tree_obj!(WT, "WT", sigma: false, prefetch: false);
tree_obj!(HWT, "HWT", sigma: false, prefetch: false);

pub const TREE_KINDS: [&str; 10] = [
    "QWT256",
    "QWT512",
    "QWT256Pfs",
    "QWT512Pfs",
    "HQWT256",
    "HQWT512",
    "HQWT256Pfs",
    "HQWT512Pfs",
    "WT",
    "HWT",
];

fn make_tree_t<T: TreeTy>(kind: &str, path: &str, vals: Vec<u128>) -> Option<Box<dyn Obj>>
where
    usize: AsPrimitive<T>,
{
    macro_rules! mk {
        ($alias:ident) => {{
            if path == "default" {
                return Some(Box::new($alias::<T>::default()));
            }
            let mut v: Vec<T> = vals.into_iter().map(T::from_u128).collect();
            let o: $alias<T> = match path {
                "new" => {
                    let o = $alias::<T>::new(&mut v[..]);
                    drop(v);
                    o
                }
                "from_vec" => $alias::<T>::from(v),
                "collect" => v.into_iter().collect(),
                // an iterator whose upper size hint (2n) exceeds what it yields (n)
                "collect_filter" => {
                    let n = v.len();
                    (0..2 * n).filter(|i| i % 2 == 0).map(|i| v[i / 2]).collect()
                }
                _ => return None,
            };
            Some(Box::new(o))
        }};
    }
    match kind {
        "QWT256" => mk!(QWT256),
        "QWT512" => mk!(QWT512),
        "QWT256Pfs" => mk!(QWT256Pfs),
        "QWT512Pfs" => mk!(QWT512Pfs),
        "HQWT256" => mk!(HQWT256),
        "HQWT512" => mk!(HQWT512),
        "HQWT256Pfs" => mk!(HQWT256Pfs),
        "HQWT512Pfs" => mk!(HQWT512Pfs),
        "WT" => mk!(WT),
        "HWT" => mk!(HWT),
        _ => None,
    }
}

pub fn make_tree(kind: &str, ty: &str, path: &str, vals: Vec<u128>) -> Option<Box<dyn Obj>> {
    match ty {
        "u8" => make_tree_t::<u8>(kind, path, vals),
        "u16" => make_tree_t::<u16>(kind, path, vals),
        "u32" => make_tree_t::<u32>(kind, path, vals),
        "u64" => make_tree_t::<u64>(kind, path, vals),
        "usize" => make_tree_t::<usize>(kind, path, vals),
        "u128" => make_tree_t::<u128>(kind, path, vals),
        _ => None,
    }
}

// ---------------------------------------------------------------- quad vectors

macro_rules! rsq_obj {
    ($t:ident, $kind:expr) => {
        impl Obj for $t {
            fn as_any(&self) -> &dyn Any {
                self
            }
            fn kind(&self) -> &'static str {
                $kind
            }
            fn fits(&self, c: u128) -> bool {
                c <= 255
            }
            fn call(&self, m: &str, c: u128, a: &[usize]) -> i64 {
                let c = c as u8;
                match m {
                    "get" => res_opt(self.get(a[0]).map(|v| v as usize)),
                    "get_unchecked" => res_val(unsafe { self.get_unchecked(a[0]) } as usize),
                    "rank" => res_opt(self.rank(c, a[0])),
                    "rank_unchecked" => res_val(unsafe { self.rank_unchecked(c, a[0]) }),
                    "select" => res_opt(self.select(c, a[0])),
                    "select_unchecked" => res_val(unsafe { self.select_unchecked(c, a[0]) }),
                    "occs" => res_opt(self.occs(c)),
                    "occs_unchecked" => res_val(unsafe { self.occs_unchecked(c) }),
                    "occs_smaller" => res_opt(self.occs_smaller(c)),
                    "occs_smaller_unchecked" => res_val(unsafe { self.occs_smaller_unchecked(c) }),
                    "rank_block_unchecked" => res_val(unsafe { self.rank_block_unchecked(c, a[0]) }),
                    "prefetch_info" => {
                        self.prefetch_info(a[0]);
                        0
                    }
                    "prefetch_data" => {
                        self.prefetch_data(a[0]);
                        0
                    }
                    _ => NA,
                }
            }
            fn meta(&self) -> Value {
                json!({
                    "len": gi(|| res_val(self.len())),
                    "is_empty": gi(|| self.is_empty() as i64),
                })
            }
            fn clone_obj(&self) -> Option<Box<dyn Obj>> {
                Some(Box::new(self.clone()))
            }
            fn eq_obj(&self, o: &dyn Obj) -> Option<bool> {
                o.as_any().downcast_ref::<Self>().map(|o| self == o)
            }
            fn ser(&self) -> Option<Result<Vec<u8>, String>> {
                Some(ser_of(self))
            }
            fn de(&self, b: &[u8]) -> Option<Result<Box<dyn Obj>, String>> {
                Some(de_of::<Self>(b))
            }
            fn space(&self) -> Option<(usize, f64, f64, f64)> {
                Some(space_of(self))
            }
            fn self_size(&self) -> usize {
                std::mem::size_of::<Self>()
            }
            fn internals(&self) -> Value {
                internals_of(self)
            }
            fn iter_run(&self, m: &str, _pos: usize, ops: &str) -> Option<Vec<Value>> {
                match m {
                    "iter" => Some(run_fwd_iter(self.iter(), ops, |v: u8| v as usize, None)),
                    "ref_into_iter" => Some(run_fwd_iter((&*self).into_iter(), ops, |v: u8| v as usize, None)),
                    _ => None,
                }
            }
            fn into_iter_run(self: Box<Self>, ops: &str) -> Option<Vec<Value>> {
                Some(run_fwd_iter((*self).into_iter(), ops, |v: u8| v as usize, None))
            }
            fn collect_iter(&self) -> Option<Result<Box<dyn Obj>, String>> {
                Some(guard(|| Box::new(self.iter().collect::<Self>()) as Box<dyn Obj>))
            }
        }
    };
}
rsq_obj!(RSQVector256, "RSQ256");
rsq_obj!(RSQVector512, "RSQ512");

impl Obj for QVector {
    fn as_any(&self) -> &dyn Any {
        self
    }
    fn kind(&self) -> &'static str {
        "QV"
    }
    fn call(&self, m: &str, _c: u128, a: &[usize]) -> i64 {
        match m {
            "get" => res_opt(self.get(a[0]).map(|v| v as usize)),
            "get_unchecked" => res_val(unsafe { self.get_unchecked(a[0]) } as usize),
            _ => NA,
        }
    }
    fn meta(&self) -> Value {
        json!({
            "len": gi(|| res_val(self.len())),
            "is_empty": gi(|| self.is_empty() as i64),
        })
    }
    fn clone_obj(&self) -> Option<Box<dyn Obj>> {
        Some(Box::new(self.clone()))
    }
    fn eq_obj(&self, o: &dyn Obj) -> Option<bool> {
        o.as_any().downcast_ref::<Self>().map(|o| self == o)
    }
    fn ser(&self) -> Option<Result<Vec<u8>, String>> {
        Some(ser_of(self))
    }
    fn de(&self, b: &[u8]) -> Option<Result<Box<dyn Obj>, String>> {
        Some(de_of::<Self>(b))
    }
    fn space(&self) -> Option<(usize, f64, f64, f64)> {
        Some(space_of(self))
    }
    fn self_size(&self) -> usize {
        std::mem::size_of::<Self>()
    }
    fn internals(&self) -> Value {
        internals_of(self)
    }
    fn iter_run(&self, m: &str, _pos: usize, ops: &str) -> Option<Vec<Value>> {
        match m {
            "iter" => Some(run_fwd_iter(self.iter(), ops, |v: u8| v as usize, None)),
            "ref_into_iter" => Some(run_fwd_iter((&*self).into_iter(), ops, |v: u8| v as usize, None)),
            _ => None,
        }
    }
    fn into_iter_run(self: Box<Self>, ops: &str) -> Option<Vec<Value>> {
        Some(run_fwd_iter((*self).into_iter(), ops, |v: u8| v as usize, None))
    }
    fn convert(self: Box<Self>, m: &str) -> Option<Result<Box<dyn Obj>, String>> {
        match m {
            "rsq256" => Some(guard(|| Box::new(RSQVector256::from(*self)) as Box<dyn Obj>)),
            "rsq512" => Some(guard(|| Box::new(RSQVector512::from(*self)) as Box<dyn Obj>)),
            _ => None,
        }
    }
    fn collect_iter(&self) -> Option<Result<Box<dyn Obj>, String>> {
        Some(guard(|| Box::new(self.iter().collect::<Self>()) as Box<dyn Obj>))
    }
}

/// QVectorBuilder has no accessor at all: it is observed only through `build`.
pub struct QB(pub QVectorBuilder);
// SAFETY-free: QVectorBuilder is a plain Vec + usize.
impl Obj for QB {
    fn as_any(&self) -> &dyn Any {
        self
    }
    fn kind(&self) -> &'static str {
        "QB"
    }
    fn meta(&self) -> Value {
        json!({})
    }
    fn mutate(&mut self, ev: &Value) -> Option<Result<(), String>> {
        let m = ev["m"].as_str().unwrap();
        match m {
            "qpush" => {
                let v = ev["a"][0].as_u64().unwrap() as u8;
                Some(guard(|| self.0.push(v)))
            }
            "qextend" => {
                let ty = ev["ty"].as_str().unwrap();
                let vals: Vec<i128> = ev["vals"].as_array().unwrap().iter().map(parse_sym_i128).collect();
                Some(guard(|| extend_qb(&mut self.0, ty, &vals)))
            }
            _ => None,
        }
    }
    fn clone_obj(&self) -> Option<Box<dyn Obj>> {
        Some(Box::new(QB(self.0.clone())))
    }
    fn eq_obj(&self, o: &dyn Obj) -> Option<bool> {
        o.as_any().downcast_ref::<Self>().map(|o| self.0 == o.0)
    }
    fn self_size(&self) -> usize {
        std::mem::size_of::<QVectorBuilder>()
    }
    fn convert(self: Box<Self>, m: &str) -> Option<Result<Box<dyn Obj>, String>> {
        match m {
            "qbuild" => Some(guard(|| Box::new(self.0.build()) as Box<dyn Obj>)),
            _ => None,
        }
    }
}

macro_rules! for_int_ty {
    ($ty:expr, $vals:expr, |$it:ident| $body:expr) => {
        match $ty {
            "u8" => { let $it = $vals.iter().map(|&v| v as u8); $body }
            "u16" => { let $it = $vals.iter().map(|&v| v as u16); $body }
            "u32" => { let $it = $vals.iter().map(|&v| v as u32); $body }
            "u64" => { let $it = $vals.iter().map(|&v| v as u64); $body }
            "usize" => { let $it = $vals.iter().map(|&v| v as usize); $body }
            "u128" => { let $it = $vals.iter().map(|&v| v as u128); $body }
            "i8" => { let $it = $vals.iter().map(|&v| v as i8); $body }
            "i16" => { let $it = $vals.iter().map(|&v| v as i16); $body }
            "i32" => { let $it = $vals.iter().map(|&v| v as i32); $body }
            "i64" => { let $it = $vals.iter().map(|&v| v as i64); $body }
            "isize" => { let $it = $vals.iter().map(|&v| v as isize); $body }
            "i128" => { let $it = $vals.iter().map(|&v| v as i128); $body }
            other => panic!("unknown integer type {other}"),
        }
    };
}

fn extend_qb(qb: &mut QVectorBuilder, ty: &str, vals: &[i128]) {
    for_int_ty!(ty, vals, |it| qb.extend(it))
}

/// a quad structure over `base` copies of the symbol `f` followed by `tail` (hundreds of millions of symbols)
pub fn make_bigq(kind: &str, base: usize, f: u8, tail: Vec<u8>) -> Option<Box<dyn Obj>> {
    if kind.starts_with("QWT") {
        let mut v: Vec<u8> = vec![f; base];
        v.extend(tail);
        return make_tree_t::<u8>(kind, "from_vec", v.into_iter().map(|x| x as u128).collect());
    }
    let mut qb = QVectorBuilder::with_capacity(base + tail.len());
    qb.extend(std::iter::repeat(f).take(base));
    qb.extend(tail);
    let qv = qb.build();
    match kind {
        "QV" => Some(Box::new(qv)),
        "RSQ256" => Some(Box::new(RSQVector256::from(qv))),
        "RSQ512" => Some(Box::new(RSQVector512::from(qv))),
        _ => None,
    }
}

/// quad structures from a list of integers of carrier type `ty`
pub fn make_quad(kind: &str, ty: &str, path: &str, vals: Vec<i128>) -> Option<Box<dyn Obj>> {
    if path == "default" {
        return match kind {
            "QV" => Some(Box::new(QVector::default())),
            "RSQ256" => Some(Box::new(RSQVector256::default())),
            "RSQ512" => Some(Box::new(RSQVector512::default())),
            "QB" => Some(Box::new(QB(QVectorBuilder::default()))),
            _ => None,
        };
    }
    match (kind, path) {
        ("QB", "qb_new") => Some(Box::new(QB(QVectorBuilder::new()))),
        ("QB", "qb_with_capacity") => Some(Box::new(QB(QVectorBuilder::with_capacity(vals.len())))),
        ("QB", "collect") => Some(Box::new(QB(for_int_ty!(ty, vals, |it| it.collect::<QVectorBuilder>())))),
        ("QV", "collect") => Some(Box::new(for_int_ty!(ty, vals, |it| it.collect::<QVector>()))),
        ("RSQ256", "collect") => Some(Box::new(for_int_ty!(ty, vals, |it| it.collect::<RSQVector256>()))),
        ("RSQ512", "collect") => Some(Box::new(for_int_ty!(ty, vals, |it| it.collect::<RSQVector512>()))),
        ("QV", "collect_filter") => Some(Box::new(for_int_ty!(ty, vals, |it| {
            let w: Vec<_> = it.collect();
            (0..2 * w.len()).filter(|i| i % 2 == 0).map(|i| w[i / 2]).collect::<QVector>()
        }))),
        ("RSQ256", "collect_filter") => Some(Box::new(for_int_ty!(ty, vals, |it| {
            let w: Vec<_> = it.collect();
            (0..2 * w.len()).filter(|i| i % 2 == 0).map(|i| w[i / 2]).collect::<RSQVector256>()
        }))),
        ("RSQ512", "collect_filter") => Some(Box::new(for_int_ty!(ty, vals, |it| {
            let w: Vec<_> = it.collect();
            (0..2 * w.len()).filter(|i| i % 2 == 0).map(|i| w[i / 2]).collect::<RSQVector512>()
        }))),
        ("QV", "qb_extend_filter") => Some(Box::new(for_int_ty!(ty, vals, |it| {
            let w: Vec<_> = it.collect();
            let mut qb = QVectorBuilder::new();
            qb.extend((0..2 * w.len()).filter(|i| i % 2 == 0).map(|i| w[i / 2]));
            qb.build()
        }))),
        ("RSQ256", "from_qv") => {
            let qv = for_int_ty!(ty, vals, |it| it.collect::<QVector>());
            Some(Box::new(RSQVector256::from(qv)))
        }
        ("RSQ512", "from_qv") => {
            let qv = for_int_ty!(ty, vals, |it| it.collect::<QVector>());
            Some(Box::new(RSQVector512::from(qv)))
        }
        ("RSQ256", "new") | ("RSQ512", "new") => {
            macro_rules! newu {
                ($t:ty) => {{
                    let v: Vec<$t> = vals.iter().map(|&x| x as $t).collect();
                    if kind == "RSQ256" {
                        Some(Box::new(RSQVector256::new(&v)) as Box<dyn Obj>)
                    } else {
                        Some(Box::new(RSQVector512::new(&v)) as Box<dyn Obj>)
                    }
                }};
            }
            match ty {
                "u8" => newu!(u8),
                "u16" => newu!(u16),
                "u32" => newu!(u32),
                "u64" => newu!(u64),
                "usize" => newu!(usize),
                "u128" => newu!(u128),
                _ => None,
            }
        }
        _ => None,
    }
}

// ---------------------------------------------------------------- bit vectors

fn pos_iter_run<'a, const B: bool>(it: bitvector::BitVectorBitPositionsIter<'a, B>, ops: &str) -> Vec<Value> {
    run_fwd_iter(it, ops, |v: usize| v, None)
}

macro_rules! bits_common {
    () => {
        fn as_any(&self) -> &dyn Any {
            self
        }
        fn clone_obj(&self) -> Option<Box<dyn Obj>> {
            Some(Box::new(self.clone()))
        }
        fn eq_obj(&self, o: &dyn Obj) -> Option<bool> {
            o.as_any().downcast_ref::<Self>().map(|o| self == o)
        }
        fn ser(&self) -> Option<Result<Vec<u8>, String>> {
            Some(ser_of(self))
        }
        fn de(&self, b: &[u8]) -> Option<Result<Box<dyn Obj>, String>> {
            Some(de_of::<Self>(b))
        }
        fn space(&self) -> Option<(usize, f64, f64, f64)> {
            Some(space_of(self))
        }
        fn self_size(&self) -> usize {
            std::mem::size_of::<Self>()
        }
        fn internals(&self) -> Value {
            internals_of(self)
        }
    };
}

macro_rules! bv_like_calls {
    () => {
        fn call(&self, m: &str, _c: u128, a: &[usize]) -> i64 {
            match m {
                "get" => res_opt(self.get(a[0]).map(|b| b as usize)),
                "get_unchecked" => res_val(unsafe { self.get_unchecked(a[0]) } as usize),
                _ => self.extra(m, a),
            }
        }
        fn callv(&self, m: &str, a: &[usize]) -> Value {
            match m {
                "get_bits" => match self.get_bits(a[0], a[1]) {
                    None => json!([NONE]),
                    Some(w) => word_bits(w),
                },
                "get_bits_unchecked" => word_bits(unsafe { self.get_bits_unchecked(a[0], a[1]) }),
                "get_word" => word_bits(self.get_word(a[0])),
                _ => json!([NA]),
            }
        }
        fn meta(&self) -> Value {
            json!({
                "len": gi(|| res_val(self.len())),
                "is_empty": gi(|| self.is_empty() as i64),
                "ones": gi(|| res_val(self.count_ones())),
                "zeros": gi(|| res_val(self.count_zeros())),
            })
        }
        fn iter_run(&self, m: &str, pos: usize, ops: &str) -> Option<Vec<Value>> {
            match m {
                "iter" => {
                    let l = |i: &bitvector::BitVectorIter| i.len();
                    Some(run_fwd_iter(self.iter(), ops, |b: bool| b as usize, Some(&l)))
                }
                "ones" => Some(pos_iter_run(self.ones(), ops)),
                "zeros" => Some(pos_iter_run(self.zeros(), ops)),
                "ones_with_pos" => Some(pos_iter_run(self.ones_with_pos(pos), ops)),
                "zeros_with_pos" => Some(pos_iter_run(self.zeros_with_pos(pos), ops)),
                _ => None,
            }
        }
        fn into_iter_run(self: Box<Self>, ops: &str) -> Option<Vec<Value>> {
            let l = |i: &bitvector::BitVectorIntoIter| i.len();
            Some(run_fwd_iter((*self).into_iter(), ops, |b: bool| b as usize, Some(&l)))
        }
    };
}

impl Obj for BitVector {
    bits_common!();
    bv_like_calls!();
    fn kind(&self) -> &'static str {
        "BV"
    }
    fn extra(&self, m: &str, a: &[usize]) -> i64 {
        match m {
            "n_lines" => res_val(self.n_lines()),
            "prefetch_line" => {
                self.prefetch_line(a[0]);
                0
            }
            _ => NA,
        }
    }
    fn convert(self: Box<Self>, m: &str) -> Option<Result<Box<dyn Obj>, String>> {
        match m {
            "into_bvm" => Some(guard(|| Box::new(BitVectorMut::from(*self)) as Box<dyn Obj>)),
            "rs_narrow" => Some(guard(|| Box::new(RSNarrow::new(*self)) as Box<dyn Obj>)),
            "rs_narrow_from" => Some(guard(|| Box::new(RSNarrow::from(*self)) as Box<dyn Obj>)),
            "rs_wide" => Some(guard(|| Box::new(RSWide::new(*self)) as Box<dyn Obj>)),
            "rs_wide_from" => Some(guard(|| Box::new(RSWide::from(*self)) as Box<dyn Obj>)),
            "da0" => Some(guard(|| Box::new(DArray::<false>::new(*self)) as Box<dyn Obj>)),
            "da1" => Some(guard(|| Box::new(DArray::<true>::new(*self)) as Box<dyn Obj>)),
            _ => None,
        }
    }
    fn collect_iter(&self) -> Option<Result<Box<dyn Obj>, String>> {
        Some(guard(|| Box::new(self.iter().collect::<Self>()) as Box<dyn Obj>))
    }
}

impl Obj for BitVectorMut {
    bits_common!();
    bv_like_calls!();
    fn kind(&self) -> &'static str {
        "BVM"
    }
    fn mutate(&mut self, ev: &Value) -> Option<Result<(), String>> {
        let m = ev["m"].as_str().unwrap();
        let a: Vec<usize> = ev["a"].as_array().map(|v| v.iter().map(arg).collect()).unwrap_or_default();
        match m {
            "push" => Some(guard(|| self.push(a[0] == 1))),
            "append_bits" => {
                let w = parse_word(&ev["w"]);
                Some(guard(|| self.append_bits(w, a[0])))
            }
            "extend_with_zeros" => Some(guard(|| self.extend_with_zeros(a[0]))),
            "set" => Some(guard(|| self.set(a[0], a[1] == 1))),
            "set_bits" => {
                let w = parse_word(&ev["w"]);
                Some(guard(|| self.set_bits(a[0], a[1], w)))
            }
            "extend_bools" => {
                let bits: Vec<bool> = ev["bits"].as_array().unwrap().iter().map(|b| b.as_i64().unwrap() == 1).collect();
                Some(guard(|| self.extend(bits)))
            }
            // the same bits through an iterator whose upper size hint (2n) exceeds what it yields (n)
            "extend_bools_filter" => {
                let bits: Vec<bool> = ev["bits"].as_array().unwrap().iter().map(|b| b.as_i64().unwrap() == 1).collect();
                Some(guard(|| self.extend((0..2 * bits.len()).filter(|i| i % 2 == 0).map(|i| bits[i / 2]))))
            }
            "extend_positions" => {
                let pos: Vec<usize> = ev["pos"].as_array().unwrap().iter().map(arg).collect();
                Some(guard(|| self.extend(pos)))
            }
            "shrink_to_fit" => Some(guard(|| self.shrink_to_fit())),
            _ => None,
        }
    }
    fn convert(self: Box<Self>, m: &str) -> Option<Result<Box<dyn Obj>, String>> {
        match m {
            "into_bv" => Some(guard(|| Box::new(BitVector::from(*self)) as Box<dyn Obj>)),
            _ => None,
        }
    }
    fn collect_iter(&self) -> Option<Result<Box<dyn Obj>, String>> {
        Some(guard(|| Box::new(self.iter().collect::<Self>()) as Box<dyn Obj>))
    }
}

macro_rules! rs_bin_obj {
    ($t:ident, $kind:expr, $has_len:tt, $extra:ident) => {
        impl Obj for $t {
            bits_common!();
            fn kind(&self) -> &'static str {
                $kind
            }
            fn extra(&self, m: &str, a: &[usize]) -> i64 {
                $extra(self, m, a)
            }
            fn call(&self, m: &str, _c: u128, a: &[usize]) -> i64 {
                match m {
                    "get" => res_opt(self.get(a[0]).map(|b| b as usize)),
                    "get_unchecked" => res_val(unsafe { self.get_unchecked(a[0]) } as usize),
                    "rank1" => res_opt(self.rank1(a[0])),
                    "rank0" => res_opt(self.rank0(a[0])),
                    "rank1_unchecked" => res_val(unsafe { self.rank1_unchecked(a[0]) }),
                    "rank0_unchecked" => res_val(unsafe { self.rank0_unchecked(a[0]) }),
                    "select1" => res_opt(self.select1(a[0])),
                    "select0" => res_opt(self.select0(a[0])),
                    "select1_unchecked" => res_val(unsafe { self.select1_unchecked(a[0]) }),
                    "select0_unchecked" => res_val(unsafe { self.select0_unchecked(a[0]) }),
                    _ => self.extra(m, a),
                }
            }
            fn meta(&self) -> Value {
                json!({
                    "len": rs_bin_obj!(@len $has_len, self),
                    "ones": gi(|| res_val(self.n_ones())),
                    "zeros": gi(|| res_val(self.n_zeros())),
                    "zeros_trait": gi(|| res_val(RankBin::n_zeros(self))),
                })
            }
        }
    };
    (@len true, $s:expr) => { gi(|| res_val($s.bv_len())) };
    (@len false, $s:expr) => { NA };
}
rs_bin_obj!(RSNarrow, "RSN", false, rsn_extra);
rs_bin_obj!(RSWide, "RSW", true, rsw_extra);

pub fn rsn_extra(_x: &RSNarrow, _m: &str, _a: &[usize]) -> i64 {
    NA
}

/// RSWide's prefetch hints (plain functions, not part of the query traits)
pub fn rsw_extra(x: &RSWide, m: &str, a: &[usize]) -> i64 {
    match m {
        "prefetch_info" => {
            x.prefetch_info(a[0]);
            0
        }
        "prefetch_data" => {
            x.prefetch_data(a[0]);
            0
        }
        _ => NA,
    }
}

macro_rules! darray_obj {
    ($s0:expr, $kind:expr) => {
        impl Obj for DArray<$s0> {
            bits_common!();
            fn kind(&self) -> &'static str {
                $kind
            }
            fn call(&self, m: &str, _c: u128, a: &[usize]) -> i64 {
                match m {
                    "get" => res_opt(self.get(a[0]).map(|b| b as usize)),
                    "get_unchecked" => res_val(unsafe { self.get_unchecked(a[0]) } as usize),
                    "select1" => res_opt(self.select1(a[0])),
                    "select0" => res_opt(self.select0(a[0])),
                    "select1_unchecked" => res_val(unsafe { self.select1_unchecked(a[0]) }),
                    "select0_unchecked" => res_val(unsafe { self.select0_unchecked(a[0]) }),
                    _ => NA,
                }
            }
            fn meta(&self) -> Value {
                json!({
                    "len": gi(|| res_val(self.len())),
                    "is_empty": gi(|| self.is_empty() as i64),
                    "ones": gi(|| res_val(self.count_ones())),
                    "zeros": gi(|| res_val(self.count_zeros())),
                })
            }
            fn iter_run(&self, m: &str, pos: usize, ops: &str) -> Option<Vec<Value>> {
                match m {
                    "iter" => {
                        let l = |i: &bitvector::BitVectorIter| i.len();
                        Some(run_fwd_iter(self.iter(), ops, |b: bool| b as usize, Some(&l)))
                    }
                    "ones" => Some(pos_iter_run(self.ones(), ops)),
                    "zeros" => Some(pos_iter_run(self.zeros(), ops)),
                    "ones_with_pos" => Some(pos_iter_run(self.ones_with_pos(pos), ops)),
                    "zeros_with_pos" => Some(pos_iter_run(self.zeros_with_pos(pos), ops)),
                    _ => None,
                }
            }
        }
    };
}
darray_obj!(false, "DA0");
darray_obj!(true, "DA1");

fn collect_positions<C: FromIterator<u8> + FromIterator<u16> + FromIterator<u32> + FromIterator<u64>
        + FromIterator<usize> + FromIterator<u128> + FromIterator<i8> + FromIterator<i16>
        + FromIterator<i32> + FromIterator<i64> + FromIterator<isize> + FromIterator<i128>>(
    ty: &str,
    vals: &[i128],
) -> C {
    for_int_ty!(ty, vals, |it| it.collect::<C>())
}

/// bit structures. `bits` is the plain bit sequence for bool-based paths;
/// `pos` the list of positions for position-based paths.
/// a bit structure over `base` zeros followed by `tail` (positions beyond 2^32)
pub fn make_big(kind: &str, base: usize, fill: bool, tail: Vec<bool>) -> Option<Box<dyn Obj>> {
    let mut bvm = if fill {
        // a leading run of ones, 64 at a time
        let mut v = BitVectorMut::with_capacity(base + tail.len());
        for _ in 0..base / 64 {
            v.append_bits(u64::MAX, 64);
        }
        for _ in 0..base % 64 {
            v.push(true);
        }
        v
    } else {
        BitVectorMut::with_zeros(base)
    };
    bvm.extend(tail);
    if kind == "BVM" {
        return Some(Box::new(bvm));
    }
    let bv = BitVector::from(bvm);
    match kind {
        "BV" => Some(Box::new(bv)),
        "RSN" => Some(Box::new(RSNarrow::new(bv))),
        "RSW" => Some(Box::new(RSWide::new(bv))),
        "DA0" => Some(Box::new(DArray::<false>::new(bv))),
        "DA1" => Some(Box::new(DArray::<true>::new(bv))),
        _ => None,
    }
}

pub fn make_bits(kind: &str, path: &str, ty: &str, bits: Vec<bool>, pos: Vec<i128>, n: usize) -> Option<Box<dyn Obj>> {
    if path == "default" {
        return match kind {
            "BV" => Some(Box::new(BitVector::default())),
            "BVM" => Some(Box::new(BitVectorMut::default())),
            "RSN" => Some(Box::new(RSNarrow::default())),
            "RSW" => Some(Box::new(RSWide::default())),
            "DA0" => Some(Box::new(DArray::<false>::default())),
            "DA1" => Some(Box::new(DArray::<true>::default())),
            _ => None,
        };
    }
    let bv_of = |bits: Vec<bool>| -> BitVector { bits.into_iter().collect() };
    match (kind, path) {
        ("BV", "bools") => Some(Box::new(bv_of(bits))),
        ("BV", "from_bvm") => {
            let bvm: BitVectorMut = bits.into_iter().collect();
            Some(Box::new(BitVector::from(bvm)))
        }
        ("BV", "positions") => Some(Box::new(collect_positions::<BitVector>(ty, &pos))),
        ("BVM", "bvm_new") => Some(Box::new(BitVectorMut::new())),
        ("BVM", "with_capacity") => Some(Box::new(BitVectorMut::with_capacity(n))),
        ("BVM", "with_zeros") => Some(Box::new(BitVectorMut::with_zeros(n))),
        ("BVM", "bools") => Some(Box::new(bits.into_iter().collect::<BitVectorMut>())),
        // collected through an iterator with an inexact size hint
        ("BVM", "bools_filter") => {
            let n = bits.len();
            Some(Box::new((0..2 * n).filter(|i| i % 2 == 0).map(|i| bits[i / 2]).collect::<BitVectorMut>()))
        }
        ("BV", "bools_filter") => {
            let n = bits.len();
            Some(Box::new((0..2 * n).filter(|i| i % 2 == 0).map(|i| bits[i / 2]).collect::<BitVector>()))
        }
        // a builder given a generous capacity, then filled bit by bit
        ("BVM", "cap_push") | ("BV", "cap_push") => {
            let mut v = BitVectorMut::with_capacity(bits.len() + 5000);
            for b in bits {
                v.push(b);
            }
            if kind == "BVM" {
                Some(Box::new(v))
            } else {
                Some(Box::new(BitVector::from(v)))
            }
        }
        ("BVM", "from_bv") => Some(Box::new(BitVectorMut::from(bv_of(bits)))),
        ("BVM", "positions") => {
            let p: Vec<usize> = pos.iter().map(|&x| x as usize).collect();
            Some(Box::new(p.into_iter().collect::<BitVectorMut>()))
        }
        ("RSN", "new") => Some(Box::new(RSNarrow::new(bv_of(bits)))),
        ("RSN", "from") => Some(Box::new(RSNarrow::from(bv_of(bits)))),
        ("RSW", "new") => Some(Box::new(RSWide::new(bv_of(bits)))),
        ("RSW", "from") => Some(Box::new(RSWide::from(bv_of(bits)))),
        ("DA0", "new") => Some(Box::new(DArray::<false>::new(bv_of(bits)))),
        ("DA1", "new") => Some(Box::new(DArray::<true>::new(bv_of(bits)))),
        ("DA0", "bools") => Some(Box::new(bits.into_iter().collect::<DArray<false>>())),
        ("DA1", "bools") => Some(Box::new(bits.into_iter().collect::<DArray<true>>())),
        ("DA0", "positions") => Some(Box::new(collect_positions::<DArray<false>>(ty, &pos))),
        ("DA1", "positions") => Some(Box::new(collect_positions::<DArray<true>>(ty, &pos))),
        _ => None,
    }
}
