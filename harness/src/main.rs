//! qwt-drive: replays behaviour files (ndjson, one call per line) against the
//! real qwt library and writes the trace (same lines with outcomes filled in).
mod alloc;
mod exec;
mod fmt;
mod grab;
mod objs;
mod tojson;
mod utilx;

use std::io::{BufRead, BufReader, BufWriter, Seek, SeekFrom, Write};

#[global_allocator]
static GLOBAL: alloc::Counting = alloc::Counting;

fn main() {
    let args: Vec<String> = std::env::args().collect();
    if args.len() < 4 || args[1] != "replay" {
        eprintln!("usage: qwt-drive replay <behaviour.ndjson> <trace.ndjson> [--wal <file>] [--start <line>] [--tag <build tag>]");
        std::process::exit(2);
    }
    let mut wal: Option<std::fs::File> = None;
    let mut start = 0usize;
    let mut tag = String::from("opt");
    let mut i = 4;
    while i < args.len() {
        match args[i].as_str() {
            "--wal" => {
                wal = Some(std::fs::OpenOptions::new().create(true).write(true).truncate(true).open(&args[i + 1]).unwrap());
                i += 2;
            }
            "--start" => {
                start = args[i + 1].parse().unwrap();
                i += 2;
            }
            "--tag" => {
                tag = args[i + 1].clone();
                i += 2;
            }
            _ => i += 1,
        }
    }
    // silent panic hook: the message is kept for the trace
    std::panic::set_hook(Box::new(|info| {
        let msg = info.to_string();
        if std::env::var_os("QWT_DRIVE_DEBUG").is_some() {
            eprintln!("{msg}");
        }
        objs::LAST_PANIC.with(|p| *p.borrow_mut() = msg);
    }));
    let inp = BufReader::new(std::fs::File::open(&args[2]).expect("behaviour file"));
    let append = start > 0;
    let outf = std::fs::OpenOptions::new().create(true).write(true).append(append).truncate(!append).open(&args[3]).expect("trace file");
    let mut out = BufWriter::new(outf);
    let mut pool = exec::Pool::new();
    for (n, line) in inp.lines().enumerate() {
        let line = line.unwrap();
        if n < start || line.trim().is_empty() {
            continue;
        }
        let mut ev: serde_json::Value = match serde_json::from_str(&line) {
            Ok(v) => v,
            Err(e) => {
                eprintln!("qwt-drive: bad behaviour line {}: {}", n + 1, e);
                std::process::exit(2);
            }
        };
        if let Some(w) = wal.as_mut() {
            // write-ahead: which line is about to run (a crash leaves it dangling)
            w.seek(SeekFrom::Start(0)).unwrap();
            let s = format!("{:<12}\n", n);
            w.write_all(s.as_bytes()).unwrap();
            out.flush().unwrap();
        }
        ev.as_object_mut().unwrap().insert("b".into(), serde_json::json!(tag));
        ev.as_object_mut().unwrap().insert("ln".into(), serde_json::json!(n));
        exec::exec(&mut pool, &mut ev);
        serde_json::to_writer(&mut out, &ev).unwrap();
        out.write_all(b"\n").unwrap();
    }
    out.flush().unwrap();
    if let Some(w) = wal.as_mut() {
        w.seek(SeekFrom::Start(0)).unwrap();
        w.write_all(b"done        \n").unwrap();
    }
}
