//! Executes behaviour events against the real library and fills in the outcomes.
use crate::alloc::live_bytes;
use crate::fmt::*;
use crate::objs::*;
use serde_json::{json, Map, Value};
use std::collections::HashMap;

pub struct Pool {
    pub objs: HashMap<i64, Box<dyn Obj>>,
    pub heap: HashMap<i64, (i64, String)>, // heap bytes measured at construction, path
    pub big: HashMap<i64, usize>,           // number of leading zeros of the "big" bit structures
}

impl Pool {
    pub fn new() -> Self {
        Pool { objs: HashMap::new(), heap: HashMap::new(), big: HashMap::new() }
    }
}

fn set(ev: &mut Value, k: &str, v: Value) {
    ev.as_object_mut().unwrap().insert(k.to_string(), v);
}

fn args_of(v: &Value) -> Vec<usize> {
    v.as_array().map(|a| a.iter().map(arg).collect()).unwrap_or_default()
}

/// a trace copy of an argument list: tokens stay as they are
fn idx_json() -> Value {
    #[cfg(qwt_verif)]
    {
        let v = qwt::verif::take_idx();
        return json!(v
            .into_iter()
            .map(|(s, i, l)| json!([s, res_val(i), res_val(l)]))
            .collect::<Vec<_>>());
    }
    #[allow(unreachable_code)]
    Value::Array(vec![])
}

fn set_tie(ev: &Value) {
    #[cfg(qwt_verif)]
    {
        use qwt::verif::{set_tie_mode, TieMode};
        let _ = qwt::verif::take_tie_orders();
        let t = &ev["tie"];
        let mode = match t["mode"].as_str() {
            Some("asc") => TieMode::Asc,
            Some("desc") => TieMode::Desc,
            Some("seed") => TieMode::Seed(t["seed"].as_u64().unwrap_or(0)),
            Some("order") => TieMode::Order(
                t["order"].as_array().unwrap().iter().map(|x| x.as_u64().unwrap() as usize).collect(),
            ),
            _ => TieMode::Natural,
        };
        set_tie_mode(mode);
    }
    let _ = ev;
}

fn tie_out() -> Value {
    #[cfg(qwt_verif)]
    {
        let o = qwt::verif::take_tie_orders();
        qwt::verif::set_tie_mode(qwt::verif::TieMode::Natural);
        return json!(o
            .into_iter()
            .map(|v| v.into_iter().map(|(s, l)| json!([res_val(s), l])).collect::<Vec<_>>())
            .collect::<Vec<_>>());
    }
    #[allow(unreachable_code)]
    Value::Array(vec![])
}

fn alpha_vals(ev: &Value) -> Vec<i128> {
    let alpha: Vec<i128> = ev["alpha"].as_array().expect("alpha").iter().map(parse_sym_i128).collect();
    let ids = expand_segs(&ev["segs"]);
    ids.into_iter().map(|i| alpha[(i - 1) as usize]).collect()
}

/// builds an object, measuring the heap it keeps alive
fn build(pool: &mut Pool, ev: &mut Value, f: impl FnOnce(&Value) -> Option<Box<dyn Obj>>) {
    let o = ev["o"].as_i64().unwrap();
    pool.objs.remove(&o);
    set_tie(ev);
    let evc = ev.clone();
    let live0 = live_bytes();
    let r = guard(|| f(&evc));
    let live1 = live_bytes();
    drop(evc);
    set(ev, "tie_out", tie_out());
    match r {
        Ok(Some(b)) => {
            let selfsz = b.self_size() as i64;
            let heap = live1 - live0 - selfsz;
            set(ev, "out", json!(0));
            set(ev, "heap", json!(if heap >= 0 && (heap as u128) <= INT_MAX { heap } else { HUGE_RES }));
            set(ev, "selfsz", json!(selfsz));
            pool.heap.insert(o, (heap, ev["path"].as_str().unwrap_or("").to_string()));
            pool.objs.insert(o, b);
        }
        Ok(None) => {
            set(ev, "out", json!(NA));
            set(ev, "heap", json!(NA));
            set(ev, "selfsz", json!(NA));
        }
        Err(msg) => {
            set(ev, "out", json!(PANIC));
            set(ev, "heap", json!(NA));
            set(ev, "selfsz", json!(NA));
            set(ev, "msg", json!(msg));
        }
    }
}

fn grid_row(o: &dyn Obj, m: &str, c: u128, fits: bool, as_: &[Value], vecres: bool) -> Value {
    let mut row = Vec::with_capacity(as_.len());
    for a in as_ {
        // an argument is either one integer or a list of integers
        let av: Vec<usize> = if a.is_array() { args_of(a) } else { vec![arg(a)] };
        if !fits {
            row.push(if vecres { json!([SKIP]) } else { json!(SKIP) });
            continue;
        }
        if vecres {
            row.push(gv(|| o.callv(m, &av)));
        } else {
            row.push(json!(gi(|| o.call(m, c, &av))));
        }
    }
    json!(row)
}

const VEC_METHODS: [&str; 5] = ["get_bits", "get_bits_unchecked", "get_word", "get_tree", "get_tree_unchecked"];

fn is_tree(o: &dyn Obj) -> bool {
    TREE_KINDS.contains(&o.kind())
}

/// full grid `cs x as` of method `m` on object `o`
fn run_grid(o: &dyn Obj, m: &str, cs: &Value, as_: &Value) -> Value {
    let as_ = as_.as_array().cloned().unwrap_or_default();
    let tree = is_tree(o);
    let vecres = VEC_METHODS.contains(&m) || (tree && (m == "get" || m == "get_unchecked"));
    let cs = cs.as_array().cloned().unwrap_or_default();
    if cs.is_empty() {
        return json!([grid_row(o, m, 0, true, &as_, vecres)]);
    }
    let mut rows = Vec::new();
    for c in &cs {
        let cv: u128 = if c.is_array() { parse_sym(c).1 } else { c.as_u64().unwrap() as u128 };
        rows.push(grid_row(o, m, cv, o.fits(cv), &as_, vecres));
    }
    json!(rows)
}

/// the same grid asked in another order (mode bit 0: symbols reversed, bit 1: arguments
/// reversed), reported in the canonical arrangement: an answer must not depend on what the
/// calling thread asked before
fn run_grid_perm(o: &dyn Obj, m: &str, cs: &Value, as_: &Value, mode: usize) -> Value {
    if mode & 3 == 0 {
        return run_grid(o, m, cs, as_);
    }
    let mut csv = cs.as_array().cloned().unwrap_or_default();
    let mut asv = as_.as_array().cloned().unwrap_or_default();
    if mode & 1 == 1 {
        csv.reverse();
    }
    if mode & 2 == 2 {
        asv.reverse();
    }
    let mut out = run_grid(o, m, &json!(csv), &json!(asv));
    if let Some(rows) = out.as_array_mut() {
        if mode & 2 == 2 {
            for r in rows.iter_mut() {
                if let Some(r) = r.as_array_mut() {
                    r.reverse();
                }
            }
        }
        if mode & 1 == 1 {
            rows.reverse();
        }
    }
    out
}

fn mem_available_kib() -> Option<u64> {
    let s = std::fs::read_to_string("/proc/meminfo").ok()?;
    for l in s.lines() {
        if let Some(r) = l.strip_prefix("MemAvailable:") {
            return r.trim().trim_end_matches("kB").trim().parse().ok();
        }
    }
    None
}

fn f64_scaled(x: f64, pow: i32) -> i64 {
    // x * 2^pow is exact in f64 (barring overflow); render it when it is a small integer
    let y = x * (2f64).powi(pow);
    if y.is_finite() && y >= 0.0 && y.fract() == 0.0 && y <= INT_MAX as f64 {
        y as i64
    } else {
        HUGE_RES
    }
}

pub fn exec(pool: &mut Pool, ev: &mut Value) {
    let k = ev["k"].as_str().unwrap_or("").to_string();
    #[cfg(qwt_verif)]
    qwt::verif::idx_enable(true);
    match k.as_str() {
        "reset" => {
            pool.objs.clear();
            pool.heap.clear();
            pool.big.clear();
        }
        "newt" => {
            build(pool, ev, |evc| {
                let kind = evc["kind"].as_str().unwrap();
                let ty = evc["ty"].as_str().unwrap();
                let path = evc["path"].as_str().unwrap();
                let vals: Vec<u128> = if path == "default" {
                    vec![]
                } else {
                    alpha_vals(evc).into_iter().map(|v| v as u128).collect()
                };
                make_tree(kind, ty, path, vals)
            });
        }
        "newq" => {
            build(pool, ev, |evc| {
                let kind = evc["kind"].as_str().unwrap();
                let ty = evc["ty"].as_str().unwrap();
                let path = evc["path"].as_str().unwrap();
                let vals = if path == "default" || path == "qb_new" { vec![] } else { alpha_vals(evc) };
                make_quad(kind, ty, path, vals)
            });
        }
        "newb" => {
            build(pool, ev, |evc| {
                let kind = evc["kind"].as_str().unwrap();
                let ty = evc["ty"].as_str().unwrap_or("usize");
                let path = evc["path"].as_str().unwrap();
                let n = evc["n"].as_i64().map(arg_i).unwrap_or(0);
                let mut bits: Vec<bool> = vec![];
                let mut pos: Vec<i128> = vec![];
                if path == "positions" {
                    if let Some(p) = evc["pos"].as_array() {
                        // raw positions (possibly not increasing / negative): [sign, limbs..] entries
                        pos = p.iter().map(parse_sym_i128).collect();
                    } else {
                        // positions of the ones of the bit pattern
                        let b = expand_segs(&evc["segs"]);
                        pos = b.iter().enumerate().filter(|(_, &x)| x == 1).map(|(i, _)| i as i128).collect();
                    }
                } else if !evc["segs"].is_null() {
                    bits = expand_segs(&evc["segs"]).into_iter().map(|x| x == 1).collect();
                }
                make_bits(kind, path, ty, bits, pos, n)
            });
        }
        "mut" => {
            let o = ev["o"].as_i64().unwrap();
            let r = match pool.objs.get_mut(&o) {
                Some(b) => b.mutate(ev),
                None => None,
            };
            match r {
                None => set(ev, "out", json!(NA)),
                Some(Ok(())) => set(ev, "out", json!(0)),
                Some(Err(msg)) => {
                    // state after a panicking mutator is unspecified: the object is dropped
                    pool.objs.remove(&o);
                    set(ev, "out", json!(PANIC));
                    set(ev, "msg", json!(msg));
                }
            }
        }
        "conv" => {
            let src = ev["src"].as_i64().unwrap();
            let dst = ev["dst"].as_i64().unwrap();
            let m = ev["m"].as_str().unwrap().to_string();
            let keep = ev["keep"].as_i64().unwrap_or(1) == 1;
            let mut ok = NA;
            let mut eq = NA;
            let mut bytes = NA;
            if pool.objs.contains_key(&src) {
                match m.as_str() {
                    "clone" => {
                        let r = guard(|| pool.objs[&src].clone_obj());
                        match r {
                            Ok(Some(c)) => {
                                eq = gi(|| pool.objs[&src].eq_obj(&*c).map(|b| b as i64).unwrap_or(NA));
                                pool.objs.insert(dst, c);
                                ok = 0;
                            }
                            Ok(None) => {}
                            Err(_) => ok = PANIC,
                        }
                    }
                    "serde" => {
                        if let Some(s) = pool.objs[&src].ser() {
                            match s {
                                Ok(b) => {
                                    bytes = res_val(b.len());
                                    match pool.objs[&src].de(&b) {
                                        Some(Ok(c)) => {
                                            eq = gi(|| pool.objs[&src].eq_obj(&*c).map(|b| b as i64).unwrap_or(NA));
                                            pool.objs.insert(dst, c);
                                            ok = 0;
                                        }
                                        Some(Err(e)) => {
                                            ok = if e.starts_with("panic") { PANIC } else { -6 };
                                            set(ev, "msg", json!(e));
                                        }
                                        None => {}
                                    }
                                }
                                Err(e) => {
                                    ok = if e.starts_with("panic") { PANIC } else { -6 };
                                    set(ev, "msg", json!(e));
                                }
                            }
                        }
                    }
                    "collect_iter" => match pool.objs[&src].collect_iter() {
                        Some(Ok(c)) => {
                            eq = gi(|| pool.objs[&src].eq_obj(&*c).map(|b| b as i64).unwrap_or(NA));
                            pool.objs.insert(dst, c);
                            ok = 0;
                        }
                        Some(Err(e)) => {
                            ok = PANIC;
                            set(ev, "msg", json!(e));
                        }
                        None => {}
                    },
                    _ => {
                        // consuming conversions; with keep=1 a clone is converted.  The bytes the
                        // result keeps alive are measured through the live-byte counter: the source's
                        // bytes are either moved into the result or freed by the conversion.
                        let l0 = live_bytes();
                        let (srcobj, src_total) = if keep {
                            let c = guard(|| pool.objs[&src].clone_obj()).unwrap_or(None);
                            let t = live_bytes() - l0;
                            (c, Some(t))
                        } else {
                            let t = pool.heap.get(&src).map(|(h, _)| *h + pool.objs[&src].self_size() as i64);
                            pool.heap.remove(&src);
                            (pool.objs.remove(&src), t)
                        };
                        if let Some(s) = srcobj {
                            let l1 = live_bytes();
                            match s.convert(&m) {
                                Some(Ok(c)) => {
                                    let l2 = live_bytes();
                                    if let Some(st) = src_total {
                                        let heap = l2 - l1 + st - c.self_size() as i64;
                                        pool.heap.insert(dst, (heap, m.clone()));
                                    }
                                    pool.objs.insert(dst, c);
                                    ok = 0;
                                }
                                Some(Err(e)) => {
                                    ok = PANIC;
                                    set(ev, "msg", json!(e));
                                }
                                None => {}
                            }
                        }
                    }
                }
            }
            set(ev, "ok", json!(ok));
            set(ev, "eq", json!(eq));
            set(ev, "bytes", json!(bytes));
        }
        "drop" => {
            let o = ev["o"].as_i64().unwrap();
            pool.objs.remove(&o);
        }
        "eq" => {
            let a = ev["oa"].as_i64().unwrap();
            let b = ev["ob"].as_i64().unwrap();
            let out = match (pool.objs.get(&a), pool.objs.get(&b)) {
                (Some(x), Some(y)) => gi(|| x.eq_obj(&**y).map(|b| b as i64).unwrap_or(NA)),
                _ => NA,
            };
            set(ev, "out", json!(out));
        }
        "meta" => {
            let o = ev["o"].as_i64().unwrap();
            let out = match pool.objs.get(&o) {
                Some(x) => x.meta(),
                None => Value::Null,
            };
            if let Some(m) = out.as_object() {
                for (k, v) in m {
                    set(ev, k, v.clone());
                }
                set(ev, "out", json!(0));
            } else {
                set(ev, "out", json!(NA));
            }
        }
        "qg" => {
            let o = ev["o"].as_i64().unwrap();
            let out = match pool.objs.get(&o) {
                Some(x) => run_grid(&**x, ev["m"].as_str().unwrap(), &ev["cs"], &ev["as"]),
                None => json!(NA),
            };
            set(ev, "out", out);
        }
        // same object, two methods (prefetch transparency)
        "relm" => {
            let o = ev["o"].as_i64().unwrap();
            let (a, b) = match pool.objs.get(&o) {
                Some(x) => (
                    run_grid(&**x, ev["ma"].as_str().unwrap(), &ev["cs"], &ev["as"]),
                    run_grid(&**x, ev["mb"].as_str().unwrap(), &ev["cs"], &ev["as"]),
                ),
                None => (json!(NA), json!(NA)),
            };
            set(ev, "outa", a);
            set(ev, "outb", b);
        }
        // two objects, same method
        "relo" => {
            let oa = ev["oa"].as_i64().unwrap();
            let ob = ev["ob"].as_i64().unwrap();
            let m = ev["m"].as_str().unwrap().to_string();
            let a = match pool.objs.get(&oa) {
                Some(x) => run_grid(&**x, &m, &ev["cs"], &ev["as"]),
                None => json!(NA),
            };
            let b = match pool.objs.get(&ob) {
                Some(x) => run_grid(&**x, &m, &ev["cs"], &ev["as"]),
                None => json!(NA),
            };
            set(ev, "outa", a);
            set(ev, "outb", b);
        }
        // unchecked twin: parallel lists cs/as (call j = (cs[j], as[j])); the checked
        // method `mc` is called with the same arguments right before
        "uq" => {
            let o = ev["o"].as_i64().unwrap();
            let m = ev["m"].as_str().unwrap().to_string();
            let mc = ev["mc"].as_str().unwrap().to_string();
            let mut out = Vec::new();
            let mut chk = Vec::new();
            if let Some(x) = pool.objs.get(&o) {
                let as_ = ev["as"].as_array().cloned().unwrap_or_default();
                let cs = ev["cs"].as_array().cloned().unwrap_or_default();
                let tree = is_tree(&**x);
                let vecres = VEC_METHODS.contains(&mc.as_str()) || (tree && mc == "get");
                for (j, a) in as_.iter().enumerate() {
                    let av: Vec<usize> = if a.is_array() { args_of(a) } else { vec![arg(a)] };
                    let cv: u128 = match cs.get(j) {
                        Some(c) if c.is_array() => parse_sym(c).1,
                        Some(c) => c.as_u64().unwrap() as u128,
                        None => 0,
                    };
                    if !x.fits(cv) {
                        out.push(if vecres { json!([SKIP]) } else { json!(SKIP) });
                        chk.push(if vecres { json!([SKIP]) } else { json!(SKIP) });
                        continue;
                    }
                    if vecres {
                        chk.push(gv(|| x.callv(&mc, &av)));
                        out.push(gv(|| x.callv(&m, &av)));
                    } else {
                        chk.push(json!(gi(|| x.call(&mc, cv, &av))));
                        out.push(json!(gi(|| x.call(&m, cv, &av))));
                    }
                }
            }
            set(ev, "out", json!(out));
            set(ev, "chk", json!(chk));
        }
        "ith" => {
            let o = ev["o"].as_i64().unwrap();
            let m = ev["m"].as_str().unwrap().to_string();
            let ops: String = match ev["ops"].as_array() {
                Some(a) => a.iter().map(|x| x.as_str().unwrap_or("?")).collect(),
                None => ev["ops"].as_str().unwrap_or("").to_string(),
            };
            let pos = ev["a"].as_array().and_then(|a| a.first()).map(arg).unwrap_or(0);
            // creating the iterator is a library call too: a panic there is the outcome of the first step
            let out = if m == "into_iter" {
                let keep = ev["keep"].as_i64().unwrap_or(1) == 1;
                let obj = if keep { guard(|| pool.objs.get(&o).and_then(|x| x.clone_obj())).unwrap_or(None) } else { pool.objs.remove(&o) };
                match obj {
                    Some(x) => guard(move || x.into_iter_run(&ops)).unwrap_or(Some(vec![json!([PANIC])])),
                    None => None,
                }
            } else {
                match pool.objs.get(&o) {
                    Some(x) => guard(|| x.iter_run(&m, pos, &ops)).unwrap_or(Some(vec![json!([PANIC])])),
                    None => None,
                }
            };
            match out {
                Some(v) => set(ev, "out", json!(v)),
                None => set(ev, "out", json!([[NA]])),
            }
        }
        "space" => {
            let o = ev["o"].as_i64().unwrap();
            let mut rep = NA;
            let (mut kib, mut mib, mut gib) = (NA, NA, NA);
            let mut heap = NA;
            let mut selfsz = NA;
            let mut lens = Value::Array(vec![]);
            if let Some(x) = pool.objs.get(&o) {
                if let Ok(Some((b, k, m, g))) = guard(|| x.space()) {
                    rep = res_val(b);
                    kib = f64_scaled(k, 10);
                    mib = f64_scaled(m, 20);
                    gib = f64_scaled(g, 30);
                }
                selfsz = x.self_size() as i64;
                if let Some((h, _)) = pool.heap.get(&o) {
                    heap = if *h >= 0 && (*h as u128) <= INT_MAX { *h } else { HUGE_RES };
                }
                if let Some(l) = x.field("lens") {
                    lens = json!(l.into_iter().map(|v| res_val(v as usize)).collect::<Vec<i64>>());
                }
            }
            set(ev, "rep", json!(rep));
            set(ev, "kib", json!(kib));
            set(ev, "mib", json!(mib));
            set(ev, "gib", json!(gib));
            set(ev, "heap", json!(heap));
            set(ev, "selfsz", json!(selfsz));
            set(ev, "lens", lens);
        }
        // purity: serialized form before/after a batch run twice
        "pure" => {
            let o = ev["o"].as_i64().unwrap();
            let mut same = NA;
            let mut out1 = vec![];
            let mut out2 = vec![];
            if let Some(x) = pool.objs.get(&o) {
                let d0 = x.ser();
                for b in ev["batch"].as_array().cloned().unwrap_or_default() {
                    out1.push(run_grid(&**x, b["m"].as_str().unwrap(), &b["cs"], &b["as"]));
                }
                // the second pass asks every grid with its symbols and its arguments in reverse order
                for b in ev["batch"].as_array().cloned().unwrap_or_default() {
                    out2.push(run_grid_perm(&**x, b["m"].as_str().unwrap(), &b["cs"], &b["as"], 3));
                }
                let d1 = x.ser();
                same = match (d0, d1) {
                    (Some(Ok(a)), Some(Ok(b))) => (a == b) as i64,
                    (None, None) => NA,
                    _ => PANIC,
                };
            }
            set(ev, "same", json!(same));
            set(ev, "out1", json!(out1));
            set(ev, "out2", json!(out2));
        }
        // shared across threads
        "thr" => {
            let o = ev["o"].as_i64().unwrap();
            let t = ev["t"].as_u64().unwrap_or(4) as usize;
            let reps = ev["reps"].as_u64().unwrap_or(1) as usize;
            let mut seq = vec![];
            let mut outs: Vec<Value> = vec![];
            if let Some(x) = pool.objs.get(&o) {
                let batch = ev["batch"].as_array().cloned().unwrap_or_default();
                // thread j asks in order mode j % 4 (repetition after repetition the next mode)
                let run = |x: &dyn Obj, mode0: usize| -> Value {
                    let mut last = Value::Null;
                    for rep in 0..reps {
                        let mut r = vec![];
                        for b in &batch {
                            r.push(run_grid_perm(x, b["m"].as_str().unwrap(), &b["cs"], &b["as"], mode0 + rep));
                        }
                        let cur = json!(r);
                        if !last.is_null() && last != cur {
                            // an answer changed between repetitions inside one thread: keep the odd one
                            return json!({"unstable": [last, cur]});
                        }
                        last = cur;
                    }
                    last
                };
                seq = vec![run(&**x, 0)];
                let xr: &dyn Obj = &**x;
                let barrier = std::sync::Barrier::new(t);
                outs = std::thread::scope(|s| {
                    let (barrier, run) = (&barrier, &run);
                    let hs: Vec<_> = (0..t)
                        .map(|j| {
                            s.spawn(move || {
                                barrier.wait();
                                match guard(|| run(xr, j)) {
                                    Ok(v) => v,
                                    Err(_) => json!(PANIC),
                                }
                            })
                        })
                        .collect();
                    hs.into_iter().map(|h| h.join().unwrap_or(json!(PANIC))).collect()
                });
            }
            set(ev, "seq", json!(seq));
            set(ev, "outs", json!(outs));
        }
        // bit structures with positions beyond 2^32: `base` zeros, then a short tail
        "newbig" => {
            let o = ev["o"].as_i64().unwrap();
            let kind = ev["kind"].as_str().unwrap().to_string();
            let base = parse_sym(&ev["base"]).1 as usize;
            let tail: Vec<bool> = expand_segs(&ev["segs"]).into_iter().map(|x| x != 0).collect();
            // needs base / 8 bytes (plus the index): not attempted on a machine short of memory
            // (an allocation failure is permitted behaviour and must not look like a crash)
            if mem_available_kib().map(|k| (k as u128) * 1024 < (base as u128) / 2 + (4u128 << 30)).unwrap_or(false) {
                set(ev, "out", json!(SKIP));
                return;
            }
            let fill = ev["fill"].as_i64().unwrap_or(0) == 1;
            match guard(|| make_big(&kind, base, fill, tail)) {
                Ok(Some(x)) => {
                    pool.objs.insert(o, x);
                    pool.big.insert(o, base);
                    set(ev, "out", json!(0));
                }
                Ok(None) => set(ev, "out", json!(NA)),
                Err(_) => set(ev, "out", json!(PANIC)),
            }
        }
        "qbig" => {
            let o = ev["o"].as_i64().unwrap();
            let m = ev["m"].as_str().unwrap().to_string();
            let rel: Vec<i64> = ev["rel"].as_array().map(|a| a.iter().map(|v| v.as_i64().unwrap()).collect()).unwrap_or_default();
            let relative = ev["form"].as_str() == Some("rel");
            let mut args = vec![];
            let mut out = vec![];
            if let (Some(x), Some(&base)) = (pool.objs.get(&o), pool.big.get(&o)) {
                for r in rel {
                    let a = if relative { (base as i128 + r as i128) as usize } else { r as usize };
                    args.push(sym(a as u128));
                    raw_clear();
                    let code = gi(|| x.call(&m, 0, &[a]));
                    out.push(res_big(code, &mut raw_take().into_iter()));
                }
            }
            set(ev, "args", json!(args));
            set(ev, "out", json!(out));
        }
        // long quad structures: `base` copies of one symbol, then a short tail (positions stay below 2^31)
        "newbigq" => {
            let o = ev["o"].as_i64().unwrap();
            let kind = ev["kind"].as_str().unwrap().to_string();
            let base = ev["base"].as_u64().unwrap_or(0) as usize;
            let f = ev["f"].as_u64().unwrap_or(0) as u8;
            let tail: Vec<u8> = alpha_vals(ev).into_iter().map(|x| (x & 3) as u8).collect();
            if mem_available_kib().map(|k| (k as u128) * 1024 < (base as u128) * 20 + (4u128 << 30)).unwrap_or(false) {
                set(ev, "out", json!(SKIP));
                return;
            }
            match guard(|| make_bigq(&kind, base, f, tail)) {
                Ok(Some(x)) => {
                    pool.objs.insert(o, x);
                    pool.big.insert(o, base);
                    set(ev, "out", json!(0));
                }
                Ok(None) => set(ev, "out", json!(NA)),
                Err(_) => set(ev, "out", json!(PANIC)),
            }
        }
        "qbigq" => {
            let o = ev["o"].as_i64().unwrap();
            let m = ev["m"].as_str().unwrap().to_string();
            let c = ev["c"].as_u64().unwrap_or(0) as u128;
            let rel: Vec<i64> = ev["rel"].as_array().map(|a| a.iter().map(|v| v.as_i64().unwrap()).collect()).unwrap_or_default();
            let relative = ev["form"].as_str() == Some("rel");
            let mut args = vec![];
            let mut out = vec![];
            if let (Some(x), Some(&base)) = (pool.objs.get(&o), pool.big.get(&o)) {
                let tree = is_tree(&**x);
                for r in rel {
                    let a = if relative { (base as i64 + r) as usize } else { r as usize };
                    args.push(res_val(a));
                    if tree && m == "get" {
                        // a tree answers get with a symbol: rendered as its integer value
                        let v = gv(|| x.callv("get", &[a]));
                        out.push(match v.as_array() {
                            Some(arr) if arr.len() >= 2 => arr[1].as_i64().unwrap_or(NA),
                            Some(arr) if arr.len() == 1 && arr[0].as_i64() == Some(0) => 0,
                            Some(arr) if arr.len() == 1 => arr[0].as_i64().unwrap_or(NA),
                            _ => NA,
                        });
                    } else {
                        out.push(gi(|| x.call(&m, c, &[a])));
                    }
                }
            }
            set(ev, "args", json!(args));
            set(ev, "out", json!(out));
        }
        // position iterators of the big bit structures, started at base + rel
        "ithbig" => {
            let o = ev["o"].as_i64().unwrap();
            let m = ev["m"].as_str().unwrap().to_string();
            let rel = ev["rel"].as_i64().unwrap_or(0);
            let cnt = ev["cnt"].as_u64().unwrap_or(3) as usize;
            let mut out = vec![];
            let mut start = json!([NA]);
            if let (Some(x), Some(&base)) = (pool.objs.get(&o), pool.big.get(&o)) {
                let pos = (base as i128 + rel as i128) as usize;
                start = sym(pos as u128);
                let ops = "n".repeat(cnt);
                raw_clear();
                let r = guard(|| x.iter_run(&m, pos, &ops)).unwrap_or(Some(vec![json!([PANIC])]));
                let mut raws = raw_take().into_iter();
                for v in r.unwrap_or_default() {
                    // [0] = None, [1, value] = Some(value), [-2] = panic
                    let a = v.as_array().cloned().unwrap_or_default();
                    let code = a.first().and_then(|c| c.as_i64()).unwrap_or(NA);
                    out.push(match (code, a.get(1).and_then(|c| c.as_i64())) {
                        (1, Some(c)) => res_big(c, &mut raws),
                        (0, _) => json!([NONE]),
                        (c, _) => json!([c]),
                    });
                }
            }
            set(ev, "start", start);
            set(ev, "out", json!(out));
        }
        "metabig" => {
            let o = ev["o"].as_i64().unwrap();
            if let Some(x) = pool.objs.get(&o) {
                raw_clear();
                let meta = guard(|| x.meta()).unwrap_or(json!({}));
                let mut raws = raw_take().into_iter();
                // the fields are evaluated in this order by every meta() of the bit kinds
                for f in ["len", "ones", "zeros", "zeros_trait"] {
                    let v = match meta.get(f).and_then(|v| v.as_i64()) {
                        Some(c) => res_big(c, &mut raws),
                        None => json!([NA]),
                    };
                    set(ev, f, v);
                }
            }
        }
        "util" => crate::utilx::exec_util(ev),
        "tu" => crate::utilx::exec_testutil(ev),
        // SpaceUsage of the std containers the crate implements it for (no pool object)
        "spstd" => {
            let shape = ev["shape"].as_str().unwrap_or("").to_string();
            let lens: Vec<usize> = ev["lens"].as_array().map(|a| a.iter().map(|v| v.as_u64().unwrap_or(0) as usize).collect()).unwrap_or_default();
            let l0 = live_bytes();
            let r = guard(|| crate::utilx::space_std(&shape, &lens, l0));
            match r {
                Ok(Some((rep, heap, selfsz))) => {
                    set(ev, "rep", json!(res_val(rep)));
                    set(ev, "heap", json!(heap));
                    set(ev, "selfsz", json!(selfsz as i64));
                }
                Ok(None) => {
                    set(ev, "rep", json!(NA));
                    set(ev, "heap", json!(NA));
                    set(ev, "selfsz", json!(NA));
                }
                Err(_) => {
                    set(ev, "rep", json!(PANIC));
                    set(ev, "heap", json!(NA));
                    set(ev, "selfsz", json!(NA));
                }
            }
        }
        "internals" => {
            let o = ev["o"].as_i64().unwrap();
            let v = pool.objs.get(&o).map(|x| x.internals()).unwrap_or(Value::Null);
            set(ev, "val", v);
        }
        _ => {
            set(ev, "out", json!(NA));
        }
    }
    #[cfg(qwt_verif)]
    {
        let i = idx_json();
        if k != "reset" {
            set(ev, "idx", i);
        }
    }
    let _ = Map::<String, Value>::new();
}
