//! Counting global allocator: live requested bytes.
use std::alloc::{GlobalAlloc, Layout, System};
use std::sync::atomic::{AtomicI64, Ordering};

pub struct Counting;
static LIVE: AtomicI64 = AtomicI64::new(0);

unsafe impl GlobalAlloc for Counting {
    unsafe fn alloc(&self, l: Layout) -> *mut u8 {
        let p = System.alloc(l);
        if !p.is_null() {
            LIVE.fetch_add(l.size() as i64, Ordering::Relaxed);
        }
        p
    }
    unsafe fn dealloc(&self, p: *mut u8, l: Layout) {
        System.dealloc(p, l);
        LIVE.fetch_sub(l.size() as i64, Ordering::Relaxed);
    }
    unsafe fn alloc_zeroed(&self, l: Layout) -> *mut u8 {
        let p = System.alloc_zeroed(l);
        if !p.is_null() {
            LIVE.fetch_add(l.size() as i64, Ordering::Relaxed);
        }
        p
    }
    unsafe fn realloc(&self, p: *mut u8, l: Layout, new: usize) -> *mut u8 {
        let q = System.realloc(p, l, new);
        if !q.is_null() {
            LIVE.fetch_add(new as i64 - l.size() as i64, Ordering::Relaxed);
        }
        q
    }
}

pub fn live_bytes() -> i64 {
    LIVE.load(Ordering::Relaxed)
}
