//! Formatting of arguments and results for the ndjson trace.
//! No judgement happens here: values are only rendered so that TLC (32-bit
//! integers, no mixed-type fields) can read them.
use serde_json::{json, Value};

pub const LIMB_BITS: u32 = 24;
/// largest integer written verbatim; anything above becomes the token HUGE_RES
pub const INT_MAX: u128 = (1u128 << 31) - 2;

/// result codes (in place of a non-negative integer)
pub const NONE: i64 = -1;
pub const PANIC: i64 = -2;
pub const HUGE_RES: i64 = -3;
pub const NA: i64 = -5; // method not offered by this kind
pub const SKIP: i64 = -9; // argument not representable in the carrier type: call not made

/// limbs of `v`, most significant first, base 2^24, no leading zero limb (0 -> [])
pub fn limbs(mut v: u128) -> Vec<i64> {
    let mut out = Vec::new();
    while v > 0 {
        out.push((v & ((1u128 << LIMB_BITS) - 1)) as i64);
        v >>= LIMB_BITS;
    }
    out.reverse();
    out
}

/// a symbol / integer value as `[sign, limbs...]`
pub fn sym(v: u128) -> Value {
    let mut a = vec![0i64];
    a.extend(limbs(v));
    json!(a)
}

pub fn sym_signed(v: i128) -> Value {
    let mut a = vec![if v < 0 { 1i64 } else { 0 }];
    a.extend(limbs(v.unsigned_abs()));
    json!(a)
}

/// parse `[sign, limbs...]`
pub fn parse_sym(v: &Value) -> (bool, u128) {
    let a = v.as_array().expect("symbol must be an array");
    let neg = a[0].as_i64().unwrap() == 1;
    let mut m: u128 = 0;
    for l in &a[1..] {
        m = (m << LIMB_BITS) | (l.as_i64().unwrap() as u128);
    }
    (neg, m)
}

pub fn parse_sym_i128(v: &Value) -> i128 {
    let (neg, m) = parse_sym(v);
    if neg {
        (m as i128).wrapping_neg()
    } else {
        m as i128
    }
}

/// argument tokens: non-negative = literal, negative = one of a few huge values
pub fn arg(v: &Value) -> usize {
    let x = v.as_i64().expect("argument must be an integer");
    arg_i(x)
}

pub fn arg_i(x: i64) -> usize {
    match x {
        x if x >= 0 => x as usize,
        -1 => usize::MAX,
        -2 => 1usize << 32,
        -3 => (1usize << 32) + 1,
        -4 => 1usize << 63,
        -5 => usize::MAX - 1,
        -6 => (1usize << 31) + 3,
        -7 => usize::MAX - 63,
        -8 => (1usize << 43) + 1,
        _ => usize::MAX - 7,
    }
}

pub fn res_opt(r: Option<usize>) -> i64 {
    match r {
        None => NONE,
        Some(v) => res_val(v),
    }
}

thread_local! {
    /// the values that did not fit the verbatim range since the last `raw_clear`, in call order
    static RAWS: std::cell::RefCell<Vec<usize>> = const { std::cell::RefCell::new(Vec::new()) };
}

pub fn raw_clear() {
    RAWS.with(|r| r.borrow_mut().clear());
}

pub fn raw_take() -> Vec<usize> {
    RAWS.with(|r| std::mem::take(&mut *r.borrow_mut()))
}

pub fn res_val(v: usize) -> i64 {
    if (v as u128) <= INT_MAX {
        v as i64
    } else {
        RAWS.with(|r| {
            let mut r = r.borrow_mut();
            if r.len() < 64 {
                r.push(v);
            }
        });
        HUGE_RES
    }
}

/// a result code as a limb list: the value itself when it was too large for the verbatim range
pub fn res_big(code: i64, raws: &mut std::vec::IntoIter<usize>) -> Value {
    match code {
        c if c >= 0 => sym(c as u128),
        HUGE_RES => match raws.next() {
            Some(v) => sym(v as u128),
            None => json!([NA]),
        },
        c => json!([c]),
    }
}

pub fn res_sym(r: Option<u128>) -> Value {
    match r {
        None => json!([NONE]),
        Some(v) => sym(v),
    }
}

/// a 64-bit word as the list of its set bit positions
pub fn word_bits(w: u64) -> Value {
    json!((0..64).filter(|i| (w >> i) & 1 == 1).collect::<Vec<u32>>())
}

pub fn word128_bits(w: u128) -> Value {
    json!((0..128).filter(|i| (w >> i) & 1 == 1).collect::<Vec<u32>>())
}

pub fn parse_word(v: &Value) -> u64 {
    let mut w = 0u64;
    for b in v.as_array().unwrap() {
        w |= 1u64 << b.as_u64().unwrap();
    }
    w
}

pub fn parse_word128(v: &Value) -> u128 {
    let mut w = 0u128;
    for b in v.as_array().unwrap() {
        w |= 1u128 << b.as_u64().unwrap();
    }
    w
}

/// expand `segs` (list of {pat:[...], rep:k}) into the flat list of pattern entries
pub fn expand_segs(segs: &Value) -> Vec<i64> {
    let mut out = Vec::new();
    for s in segs.as_array().expect("segs") {
        let pat: Vec<i64> = s["pat"]
            .as_array()
            .unwrap()
            .iter()
            .map(|x| x.as_i64().unwrap())
            .collect();
        let rep = s["rep"].as_u64().unwrap();
        for _ in 0..rep {
            out.extend_from_slice(&pat);
        }
    }
    out
}
