//! Word-level utilities of qwt::utils (C17).
use crate::fmt::*;
use crate::objs::guard;
use qwt::utils::*;
use serde_json::{json, Value};

fn set(ev: &mut Value, k: &str, v: Value) {
    ev.as_object_mut().unwrap().insert(k.to_string(), v);
}

macro_rules! for_uty {
    ($ty:expr, |$t:ident| $body:expr) => {
        match $ty {
            "u8" => { type $t = u8; $body }
            "u16" => { type $t = u16; $body }
            "u32" => { type $t = u32; $body }
            "u64" => { type $t = u64; $body }
            "usize" => { type $t = usize; $body }
            "u128" => { type $t = u128; $body }
            other => panic!("unknown unsigned type {other}"),
        }
    };
}

pub fn exec_util(ev: &mut Value) {
    let m = ev["m"].as_str().unwrap().to_string();
    match m.as_str() {
        "select_in_word" => {
            let w = parse_word(&ev["w"]);
            let out: Vec<i64> = ev["ks"]
                .as_array()
                .unwrap()
                .iter()
                .map(|k| {
                    let k = k.as_u64().unwrap();
                    guard(|| select_in_word(w, k) as i64).unwrap_or(PANIC)
                })
                .collect();
            set(ev, "out", json!(out));
        }
        "select_in_word_u128" => {
            let w = parse_word128(&ev["w"]);
            let out: Vec<i64> = ev["ks"]
                .as_array()
                .unwrap()
                .iter()
                .map(|k| {
                    let k = k.as_u64().unwrap();
                    guard(|| select_in_word_u128(w, k) as i64).unwrap_or(PANIC)
                })
                .collect();
            set(ev, "out", json!(out));
        }
        "popcnt_wide" => {
            let data: Vec<u64> = ev["ws"].as_array().unwrap().iter().map(parse_word).collect();
            let n = ev["n"].as_u64().unwrap();
            let out = guard(|| match n {
                0 => popcnt_wide::<0>(&data),
                1 => popcnt_wide::<1>(&data),
                2 => popcnt_wide::<2>(&data),
                3 => popcnt_wide::<3>(&data),
                4 => popcnt_wide::<4>(&data),
                5 => popcnt_wide::<5>(&data),
                6 => popcnt_wide::<6>(&data),
                7 => popcnt_wide::<7>(&data),
                8 => popcnt_wide::<8>(&data),
                16 => popcnt_wide::<16>(&data),
                _ => usize::MAX,
            })
            .map(res_val)
            .unwrap_or(PANIC);
            set(ev, "out", json!(out));
        }
        "msb" => {
            let ty = ev["ty"].as_str().unwrap().to_string();
            let v = parse_sym(&ev["v"]).1;
            let out = guard(|| for_uty!(ty.as_str(), |T| msb(v as T) as i64)).unwrap_or(PANIC);
            set(ev, "out", json!(out));
        }
        "part4" | "part2" => {
            let ty = ev["ty"].as_str().unwrap().to_string();
            let shift = ev["shift"].as_u64().unwrap() as usize;
            let alpha: Vec<u128> = ev["alpha"].as_array().unwrap().iter().map(|s| parse_sym(s).1).collect();
            let ids: Vec<i64> = ev["seq"].as_array().unwrap().iter().map(|x| x.as_i64().unwrap()).collect();
            let four = m == "part4";
            let r = guard(|| {
                for_uty!(ty.as_str(), |T| {
                    let mut v: Vec<T> = ids.iter().map(|&i| alpha[(i - 1) as usize] as T).collect();
                    if four {
                        stable_partition_of_4(&mut v[..], shift);
                    } else {
                        stable_partition_of_2(&mut v[..], shift);
                    }
                    v.into_iter().map(|x| sym(x as u128)).collect::<Vec<Value>>()
                })
            });
            match r {
                Ok(v) => set(ev, "out", json!(v)),
                Err(_) => set(ev, "out", json!([[PANIC]])),
            }
        }
        "text_remap" => {
            let mut bytes: Vec<u8> = ev["bytes"].as_array().unwrap().iter().map(|b| b.as_u64().unwrap() as u8).collect();
            let r = guard(|| {
                let d = text_remap(&mut bytes[..]);
                (d, bytes.clone())
            });
            match r {
                Ok((d, b)) => {
                    set(ev, "d", json!(res_val(d)));
                    set(ev, "out", json!(b));
                }
                Err(_) => {
                    set(ev, "d", json!(PANIC));
                    set(ev, "out", json!([]));
                }
            }
        }
        _ => set(ev, "out", json!(NA)),
    }
}
