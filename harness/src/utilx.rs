//! Word-level utilities of qwt::utils (C17).
use crate::fmt::*;
use crate::objs::guard;
use qwt::utils::*;
use serde_json::{json, Value};

fn set(ev: &mut Value, k: &str, v: Value) {
    ev.as_object_mut().unwrap().insert(k.to_string(), v);
}

macro_rules! for_uty {
    ($ty:expr, |$t:ident| $body:expr) => {
        match $ty {
            "u8" => { type $t = u8; $body }
            "u16" => { type $t = u16; $body }
            "u32" => { type $t = u32; $body }
            "u64" => { type $t = u64; $body }
            "usize" => { type $t = usize; $body }
            "u128" => { type $t = u128; $body }
            other => panic!("unknown unsigned type {other}"),
        }
    };
}

pub fn exec_util(ev: &mut Value) {
    let m = ev["m"].as_str().unwrap().to_string();
    match m.as_str() {
        "select_in_word" => {
            let w = parse_word(&ev["w"]);
            let out: Vec<i64> = ev["ks"]
                .as_array()
                .unwrap()
                .iter()
                .map(|k| {
                    let k = k.as_u64().unwrap();
                    guard(|| select_in_word(w, k) as i64).unwrap_or(PANIC)
                })
                .collect();
            set(ev, "out", json!(out));
        }
        "select_in_word_u128" => {
            let w = parse_word128(&ev["w"]);
            let out: Vec<i64> = ev["ks"]
                .as_array()
                .unwrap()
                .iter()
                .map(|k| {
                    let k = k.as_u64().unwrap();
                    guard(|| select_in_word_u128(w, k) as i64).unwrap_or(PANIC)
                })
                .collect();
            set(ev, "out", json!(out));
        }
        "popcnt_wide" => {
            let data: Vec<u64> = ev["ws"].as_array().unwrap().iter().map(parse_word).collect();
            let n = ev["n"].as_u64().unwrap();
            let out = guard(|| match n {
                0 => popcnt_wide::<0>(&data),
                1 => popcnt_wide::<1>(&data),
                2 => popcnt_wide::<2>(&data),
                3 => popcnt_wide::<3>(&data),
                4 => popcnt_wide::<4>(&data),
                5 => popcnt_wide::<5>(&data),
                6 => popcnt_wide::<6>(&data),
                7 => popcnt_wide::<7>(&data),
                8 => popcnt_wide::<8>(&data),
                12 => popcnt_wide::<12>(&data),
                16 => popcnt_wide::<16>(&data),
                _ => usize::MAX,
            })
            .map(res_val)
            .unwrap_or(PANIC);
            set(ev, "out", json!(out));
        }
        "msb" => {
            let ty = ev["ty"].as_str().unwrap().to_string();
            let v = parse_sym(&ev["v"]).1;
            // signed carriers too (non-negative values only: the index of the highest set bit)
            let out = guard(|| match ty.as_str() {
                "i8" => msb(v as i8) as i64,
                "i16" => msb(v as i16) as i64,
                "i32" => msb(v as i32) as i64,
                "i64" => msb(v as i64) as i64,
                "isize" => msb(v as isize) as i64,
                "i128" => msb(v as i128) as i64,
                t => for_uty!(t, |T| msb(v as T) as i64),
            })
            .unwrap_or(PANIC);
            set(ev, "out", json!(out));
        }
        "part4" | "part2" => {
            let ty = ev["ty"].as_str().unwrap().to_string();
            let shift = ev["shift"].as_u64().unwrap() as usize;
            let alpha: Vec<u128> = ev["alpha"].as_array().unwrap().iter().map(|s| parse_sym(s).1).collect();
            let ids: Vec<i64> = ev["seq"].as_array().unwrap().iter().map(|x| x.as_i64().unwrap()).collect();
            let four = m == "part4";
            let r = guard(|| {
                for_uty!(ty.as_str(), |T| {
                    let mut v: Vec<T> = ids.iter().map(|&i| alpha[(i - 1) as usize] as T).collect();
                    if four {
                        stable_partition_of_4(&mut v[..], shift);
                    } else {
                        stable_partition_of_2(&mut v[..], shift);
                    }
                    v.into_iter().map(|x| sym(x as u128)).collect::<Vec<Value>>()
                })
            });
            match r {
                Ok(v) => set(ev, "out", json!(v)),
                Err(_) => set(ev, "out", json!([[PANIC]])),
            }
        }
        "text_remap" => {
            let mut bytes: Vec<u8> = ev["bytes"].as_array().unwrap().iter().map(|b| b.as_u64().unwrap() as u8).collect();
            let r = guard(|| {
                let d = text_remap(&mut bytes[..]);
                (d, bytes.clone())
            });
            match r {
                Ok((d, b)) => {
                    set(ev, "d", json!(res_val(d)));
                    set(ev, "out", json!(b));
                }
                Err(_) => {
                    set(ev, "d", json!(PANIC));
                    set(ev, "out", json!([]));
                }
            }
        }
        _ => set(ev, "out", json!(NA)),
    }
}

/// builds a std container of the given shape, returns (reported bytes, live heap bytes it keeps, its own size)
pub fn space_std(shape: &str, lens: &[usize], live0: i64) -> Option<(usize, i64, usize)> {
    use crate::alloc::live_bytes;
    use qwt::{BitVector, SpaceUsage};
    macro_rules! done {
        ($v:expr) => {{
            let v = $v;
            let heap = live_bytes() - live0;
            let rep = v.space_usage_byte();
            let selfsz = std::mem::size_of_val(&v);
            drop(v);
            Some((rep, heap, selfsz))
        }};
    }
    let n0 = lens.first().copied().unwrap_or(0);
    match shape {
        "vec_u64" => done!({
            let mut v: Vec<u64> = Vec::with_capacity(n0);
            v.extend((0..n0 as u64).map(|x| x * 7));
            v
        }),
        "vec_u8_spare" => done!({
            // capacity larger than the length: the spare capacity is retained memory
            let mut v: Vec<u8> = Vec::with_capacity(n0 * 2 + 10);
            v.extend((0..n0).map(|x| x as u8));
            v
        }),
        "box_u32" => done!((0..n0 as u32).collect::<Vec<u32>>().into_boxed_slice()),
        "box_u128" => done!((0..n0 as u128).collect::<Vec<u128>>().into_boxed_slice()),
        "box_vec_u64" => done!(lens
            .iter()
            .map(|&l| {
                let mut v: Vec<u64> = Vec::with_capacity(l);
                v.extend(0..l as u64);
                v
            })
            .collect::<Vec<_>>()
            .into_boxed_slice()),
        "box_box_u16" => done!(lens
            .iter()
            .map(|&l| (0..l).map(|x| x as u16).collect::<Vec<u16>>().into_boxed_slice())
            .collect::<Vec<_>>()
            .into_boxed_slice()),
        "box_bv" => done!(lens
            .iter()
            .map(|&l| (0..l).map(|x| x % 3 == 0).collect::<BitVector>())
            .collect::<Vec<_>>()
            .into_boxed_slice()),
        _ => None,
    }
}

/// the public generators of qwt::perf_and_test_utils (randomised: only their contracts are judged)
pub fn exec_testutil(ev: &mut Value) {
    use qwt::perf_and_test_utils as tu;
    let m = ev["m"].as_str().unwrap().to_string();
    let n = ev["n"].as_u64().unwrap_or(0) as usize;
    let us = |k: &str| ev[k].as_u64().unwrap_or(0) as usize;
    let list = |v: Vec<usize>| json!(v.into_iter().map(res_val).collect::<Vec<i64>>());
    let out: Result<Value, String> = match m.as_str() {
        "gen_sequence" => {
            let sigma = us("sigma");
            guard(|| list(tu::gen_sequence(n, sigma).into_iter().map(|x| x as usize).collect()))
        }
        "gen_queries" => {
            let r = us("range");
            guard(|| list(tu::gen_queries(n, r)))
        }
        "gen_queries_pairs" => {
            let (r, sigma) = (us("range"), us("sigma"));
            guard(|| json!(tu::gen_queries_pairs(n, r, sigma).into_iter().map(|(a, b)| vec![res_val(a), res_val(b)]).collect::<Vec<_>>()))
        }
        "gen_strictly_increasing_sequence" => {
            let u = us("u");
            guard(|| list(tu::gen_strictly_increasing_sequence(n, u)))
        }
        "negate_vector" => {
            let v: Vec<usize> = ev["v"].as_array().unwrap().iter().map(|x| x.as_u64().unwrap() as usize).collect();
            guard(|| list(tu::negate_vector(&v)))
        }
        "gen_rank_queries" => {
            let s: Vec<u8> = ev["s"].as_array().unwrap().iter().map(|x| x.as_u64().unwrap() as u8).collect();
            guard(|| json!(tu::gen_rank_queries(n, &s).into_iter().map(|(a, b)| vec![res_val(a), b as i64]).collect::<Vec<_>>()))
        }
        "gen_select_queries" => {
            let s: Vec<u8> = ev["s"].as_array().unwrap().iter().map(|x| x.as_u64().unwrap() as u8).collect();
            guard(|| json!(tu::gen_select_queries(n, &s).into_iter().map(|(a, b)| vec![res_val(a), b as i64]).collect::<Vec<_>>()))
        }
        _ => Ok(json!([NA])),
    };
    match out {
        Ok(v) => {
            set(ev, "ok", json!(0));
            set(ev, "out", v);
        }
        Err(_) => {
            set(ev, "ok", json!(PANIC));
            set(ev, "out", json!([]));
        }
    }
}
