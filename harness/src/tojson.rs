//! serde -> serde_json::Value rendering of a structure's private fields for the model-fidelity
//! report.  Unlike serde_json it accepts 128-bit integers: every integer that does not fit
//! TLC's 32-bit range is rendered as {"w": [12-bit limbs, least significant first]} (the packed
//! counters of the crate use 12-bit fields, so the limbs are the fields).  The rendering depends
//! only on the Rust type (64-bit and wider integers are always limb objects, narrower ones always
//! plain numbers), so that TLC never meets a field of mixed type.  Sequences of data
//! lines (fields named `data` / `words`) are skipped: the report is about the index tables.
use serde::ser::{self, Serialize};
use serde_json::{json, Map, Value};
use std::fmt;

#[derive(Debug)]
pub struct Err0;
impl fmt::Display for Err0 {
    fn fmt(&self, f: &mut fmt::Formatter<'_>) -> fmt::Result {
        write!(f, "tojson error")
    }
}
impl std::error::Error for Err0 {}
impl ser::Error for Err0 {
    fn custom<T: fmt::Display>(_: T) -> Self {
        Err0
    }
}

pub fn to_json<T: Serialize>(v: &T) -> Value {
    v.serialize(Ser).unwrap_or(Value::Null)
}

fn wide(mut v: u128) -> Value {
    let mut l = Vec::new();
    while v > 0 {
        l.push((v & 0xFFF) as u64);
        v >>= 12;
    }
    json!({ "w": l })
}

fn num_u(v: u128) -> Value {
    wide(v)
}

fn num_i(v: i128) -> Value {
    if v >= 0 {
        json!({"w": wide(v as u128)["w"], "neg": 0})
    } else {
        json!({"w": wide(v.unsigned_abs())["w"], "neg": 1})
    }
}

pub struct Ser;

pub struct SeqSer {
    items: Vec<Value>,
}
pub struct MapSer {
    map: Map<String, Value>,
    key: Option<String>,
}

impl ser::Serializer for Ser {
    type Ok = Value;
    type Error = Err0;
    type SerializeSeq = SeqSer;
    type SerializeTuple = SeqSer;
    type SerializeTupleStruct = SeqSer;
    type SerializeTupleVariant = SeqSer;
    type SerializeMap = MapSer;
    type SerializeStruct = MapSer;
    type SerializeStructVariant = MapSer;
    fn serialize_bool(self, v: bool) -> Result<Value, Err0> { Ok(json!(v as u8)) }
    fn serialize_i8(self, v: i8) -> Result<Value, Err0> { Ok(json!(v)) }
    fn serialize_i16(self, v: i16) -> Result<Value, Err0> { Ok(json!(v)) }
    fn serialize_i32(self, v: i32) -> Result<Value, Err0> { Ok(json!(v)) }
    fn serialize_i64(self, v: i64) -> Result<Value, Err0> { Ok(num_i(v as i128)) }
    fn serialize_i128(self, v: i128) -> Result<Value, Err0> { Ok(num_i(v)) }
    fn serialize_u8(self, v: u8) -> Result<Value, Err0> { Ok(json!(v)) }
    fn serialize_u16(self, v: u16) -> Result<Value, Err0> { Ok(json!(v)) }
    fn serialize_u32(self, v: u32) -> Result<Value, Err0> { Ok(if (v as u128) <= crate::fmt::INT_MAX { json!(v) } else { json!(-3) }) }
    fn serialize_u64(self, v: u64) -> Result<Value, Err0> { Ok(num_u(v as u128)) }
    fn serialize_u128(self, v: u128) -> Result<Value, Err0> { Ok(num_u(v)) }
    fn serialize_f32(self, _: f32) -> Result<Value, Err0> { Ok(Value::Null) }
    fn serialize_f64(self, _: f64) -> Result<Value, Err0> { Ok(Value::Null) }
    fn serialize_char(self, v: char) -> Result<Value, Err0> { Ok(json!(v.to_string())) }
    fn serialize_str(self, v: &str) -> Result<Value, Err0> { Ok(json!(v)) }
    fn serialize_bytes(self, v: &[u8]) -> Result<Value, Err0> { Ok(json!(v)) }
    fn serialize_none(self) -> Result<Value, Err0> { Ok(json!([])) }
    fn serialize_some<T: ?Sized + Serialize>(self, v: &T) -> Result<Value, Err0> {
        Ok(json!([v.serialize(Ser)?]))
    }
    fn serialize_unit(self) -> Result<Value, Err0> { Ok(json!([])) }
    fn serialize_unit_struct(self, _: &'static str) -> Result<Value, Err0> { Ok(json!([])) }
    fn serialize_unit_variant(self, _: &'static str, _: u32, v: &'static str) -> Result<Value, Err0> { Ok(json!(v)) }
    fn serialize_newtype_struct<T: ?Sized + Serialize>(self, _: &'static str, v: &T) -> Result<Value, Err0> {
        v.serialize(Ser)
    }
    fn serialize_newtype_variant<T: ?Sized + Serialize>(self, _: &'static str, _: u32, _: &'static str, v: &T) -> Result<Value, Err0> {
        v.serialize(Ser)
    }
    fn serialize_seq(self, _: Option<usize>) -> Result<SeqSer, Err0> { Ok(SeqSer { items: vec![] }) }
    fn serialize_tuple(self, _: usize) -> Result<SeqSer, Err0> { Ok(SeqSer { items: vec![] }) }
    fn serialize_tuple_struct(self, _: &'static str, _: usize) -> Result<SeqSer, Err0> { Ok(SeqSer { items: vec![] }) }
    fn serialize_tuple_variant(self, _: &'static str, _: u32, _: &'static str, _: usize) -> Result<SeqSer, Err0> { Ok(SeqSer { items: vec![] }) }
    fn serialize_map(self, _: Option<usize>) -> Result<MapSer, Err0> { Ok(MapSer { map: Map::new(), key: None }) }
    fn serialize_struct(self, _: &'static str, _: usize) -> Result<MapSer, Err0> { Ok(MapSer { map: Map::new(), key: None }) }
    fn serialize_struct_variant(self, _: &'static str, _: u32, _: &'static str, _: usize) -> Result<MapSer, Err0> { Ok(MapSer { map: Map::new(), key: None }) }
}

macro_rules! seq_impl {
    ($tr:ident, $m:ident) => {
        impl ser::$tr for SeqSer {
            type Ok = Value;
            type Error = Err0;
            fn $m<T: ?Sized + Serialize>(&mut self, v: &T) -> Result<(), Err0> {
                self.items.push(v.serialize(Ser)?);
                Ok(())
            }
            fn end(self) -> Result<Value, Err0> {
                Ok(Value::Array(self.items))
            }
        }
    };
}
seq_impl!(SerializeSeq, serialize_element);
seq_impl!(SerializeTuple, serialize_element);
seq_impl!(SerializeTupleStruct, serialize_field);
seq_impl!(SerializeTupleVariant, serialize_field);

impl ser::SerializeMap for MapSer {
    type Ok = Value;
    type Error = Err0;
    fn serialize_key<T: ?Sized + Serialize>(&mut self, k: &T) -> Result<(), Err0> {
        self.key = Some(match k.serialize(Ser)? {
            Value::String(s) => s,
            other => other.to_string(),
        });
        Ok(())
    }
    fn serialize_value<T: ?Sized + Serialize>(&mut self, v: &T) -> Result<(), Err0> {
        let k = self.key.take().unwrap_or_default();
        self.map.insert(k, v.serialize(Ser)?);
        Ok(())
    }
    fn end(self) -> Result<Value, Err0> {
        Ok(Value::Object(self.map))
    }
}

fn field<T: ?Sized + Serialize>(m: &mut MapSer, key: &'static str, v: &T) -> Result<(), Err0> {
    if key == "data" || key == "words" || key == "qv" || key == "bv" {
        // the raw data lines (and the plain vectors that own them) are not index tables
        m.map.insert(key.to_string(), json!("skipped"));
    } else {
        m.map.insert(key.to_string(), v.serialize(Ser)?);
    }
    Ok(())
}

impl ser::SerializeStruct for MapSer {
    type Ok = Value;
    type Error = Err0;
    fn serialize_field<T: ?Sized + Serialize>(&mut self, key: &'static str, v: &T) -> Result<(), Err0> {
        field(self, key, v)
    }
    fn end(self) -> Result<Value, Err0> {
        Ok(Value::Object(self.map))
    }
}
impl ser::SerializeStructVariant for MapSer {
    type Ok = Value;
    type Error = Err0;
    fn serialize_field<T: ?Sized + Serialize>(&mut self, key: &'static str, v: &T) -> Result<(), Err0> {
        field(self, key, v)
    }
    fn end(self) -> Result<Value, Err0> {
        Ok(Value::Object(self.map))
    }
}
