SPECIFICATION Spec
CONSTANTS
  LINE = 4
  Vals <- T_Vals
  Batches <- T_Batches
  Depth = 4
  MaxLen = 9
  OffsetFormula = "code"
VIEW NoDepth
INVARIANT Refines
INVARIANT LineCount
CHECK_DEADLOCK FALSE
