SPECIFICATION Spec
CONSTANTS
  Variant = "wide"
  SUBBITS = 2
  SPB = 2
  LINE = 2
  HINT = 5
  FW = 2
  MaxN = 15
  HintTiming = "code"
INVARIANT Refines
INVARIANT FieldsFit
INVARIANT HintsBracket
CHECK_DEADLOCK FALSE
