SPECIFICATION Spec
CONSTANTS
  Threads = {1}
  B <- T_B
  Scan <- T_Scan
  MemoMode = "torn"
INVARIANT Linear
INVARIANT Pure
CHECK_DEADLOCK FALSE
