SPECIFICATION Spec
CONSTANTS
  NW = 4
  WB = 3
  FullTest = "code"
INVARIANT Refines
CHECK_DEADLOCK FALSE
