SPECIFICATION Spec
CONSTANTS
  K = 4
  MaxSym = 17
  MaxN = 3
  LevelsFormula = "minus_one"
  RankBound = "code"
  SelectValidates = TRUE
INVARIANT Refines
INVARIANT LevelCount
INVARIANT ShiftsInRange
CHECK_DEADLOCK FALSE
