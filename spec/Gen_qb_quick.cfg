SPECIFICATION Spec
CONSTANTS
  Depth = 2
  PushVals <- R_PushVals
  ExtArgs <- R_ExtArgs
INVARIANT Emit
INVARIANT LenInv
CHECK_DEADLOCK FALSE
