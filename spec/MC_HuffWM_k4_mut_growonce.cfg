SPECIFICATION Spec
CONSTANTS
  K = 4
  MaxLeaves = 28
  MaxDepth = 5
  MaxN = 0
  ScratchSize = "code"
  Finished = "last"
  GrowLoop = "if"
  EarlyExit = TRUE
INVARIANT CodesOk
CHECK_DEADLOCK FALSE
