SPECIFICATION Spec
CONSTANTS
  Threads = {1, 2}
  B <- T_B
  Scan <- T_Scan
  MemoMode = "lazy_once"
INVARIANT Linear
INVARIANT NoSharedWrite
CHECK_DEADLOCK FALSE
