SPECIFICATION Spec
CONSTANTS
  StartKinds <- AllStarts
  Depth = 5
VIEW NoHist
INVARIANT Closed
INVARIANT NoDeadEnd
INVARIANT TreesStay
PROPERTY CopiesKeepKind
CHECK_DEADLOCK FALSE
