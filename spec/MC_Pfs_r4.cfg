SPECIFICATION Spec
CONSTANTS
  RATE = 4
  MaxN = 9
  FinalSample = "code"
INVARIANT UnwrapSafe
INVARIANT EstimateBounded
INVARIANT EstimateClose
CHECK_DEADLOCK FALSE
