-------------------------------- MODULE QVec --------------------------------
(***************************************************************************)
(* Level 1 design model of the quad vector and its builder (C13):          *)
(* `QVectorBuilder::push` (position counted in bits, a new line whenever   *)
(* the symbol offset in the line is 0, `set_symbol` ORs the two bits into  *)
(* the high and the low bit plane of the line), `extend` (push of the      *)
(* value's low byte), `build`, and `QVector::{len, get, iter}`.            *)
(* TLC checks for every history of pushes / extends up to Depth over the   *)
(* value set Vals (negative and large values included) that the storage    *)
(* denotes exactly <<v mod 4>> in two's complement, that len = position/2, *)
(* that the number of lines is ceil(len / LINE) and that get stays inside  *)
(* the lines.  OffsetFormula = "bits" reproduces a seeded change (offset   *)
(* computed from the bit position instead of the symbol position).         *)
(***************************************************************************)
EXTENDS Clauses, TLC

CONSTANTS LINE,      \* symbols per line (code: 256); each plane of a line has LINE bits
          Vals,      \* integer values offered to push / extend
          Batches,   \* set of sequences over Vals for extend
          Depth, MaxLen,
          OffsetFormula   \* "code": (position div 2) mod LINE ; "bits": position mod LINE

VARIABLES hi, lo,     \* bit planes: sequences of lines, each a sequence of LINE bits
          position,   \* in bits, as in the code
          abs,        \* Level-0 value: the pushed symbols mod 4
          depth
vars == <<hi, lo, position, abs, depth>>

ZeroLine == [q \in 1..LINE |-> 0]
\* two's complement v mod 4 of an integer (TLA+ % is already the mathematical modulo)
Mod4(v) == v % 4
\* `value.as_()` to u8 keeps the low 8 bits; only the low two matter
LowTwo(v) == (v % 256) % 4

Init == hi = << >> /\ lo = << >> /\ position = 0 /\ abs = << >> /\ depth = 0

PushImpl(st, v) ==
    LET off == IF OffsetFormula = "code" THEN (st.position \div 2) % LINE ELSE st.position % LINE
        h1 == IF off = 0 THEN Append(st.hi, ZeroLine) ELSE st.hi
        l1 == IF off = 0 THEN Append(st.lo, ZeroLine) ELSE st.lo
        sy == LowTwo(v)
        \* set_symbol ORs into the planes
        h2 == [h1 EXCEPT ![Len(h1)][off + 1] = IF @ = 1 \/ sy \div 2 = 1 THEN 1 ELSE 0]
        l2 == [l1 EXCEPT ![Len(l1)][off + 1] = IF @ = 1 \/ sy % 2 = 1 THEN 1 ELSE 0]
    IN  [hi |-> h2, lo |-> l2, position |-> st.position + 2]

CanStep == depth < Depth /\ Len(abs) <= MaxLen

Push(v) ==
    LET r == PushImpl([hi |-> hi, lo |-> lo, position |-> position], v)
    IN  /\ CanStep
        /\ hi' = r.hi /\ lo' = r.lo /\ position' = r.position
        /\ abs' = Append(abs, Mod4(v))
        /\ depth' = depth + 1

Extend(vs) ==
    LET RECURSIVE Run(_)
        Run(t) == IF t = 0 THEN [hi |-> hi, lo |-> lo, position |-> position] ELSE PushImpl(Run(t - 1), vs[t])
        r == Run(Len(vs))
    IN  /\ CanStep
        /\ hi' = r.hi /\ lo' = r.lo /\ position' = r.position
        /\ abs' = abs \o [t \in 1..Len(vs) |-> Mod4(vs[t])]
        /\ depth' = depth + 1

Next == (\E v \in Vals : Push(v)) \/ (\E vs \in Batches : Extend(vs))
Spec == Init /\ [][Next]_vars

---------------------------------------------------------------------------
QLen == position \div 2
\* QVector::get(i): None beyond len, else the two bits read from the planes; OOB if the line is missing
OOB == -99
QGet(i) == IF i >= QLen THEN NONE
           ELSE LET ln == (i \div LINE) + 1 off == (i % LINE) + 1
                IN  IF ln > Len(hi) THEN OOB ELSE 2 * hi[ln][off] + lo[ln][off]

Refines ==
    /\ QLen = Len(abs)
    /\ \A i \in 0..(Len(abs) + 1) : QGet(i) \in QuadGet(abs, i).exp
LineCount == Len(hi) = (QLen + LINE - 1) \div LINE /\ Len(lo) = Len(hi)
NoDepth == <<hi, lo, position, abs>>
=============================================================================
