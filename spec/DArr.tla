-------------------------------- MODULE DArr --------------------------------
(***************************************************************************)
(* Level 1 design model of qwt::darray (C07): the inventories built by     *)
(* `Inventories::new` / `flush_block` and the `select` algorithm, written   *)
(* with the control structure of the code and parametric constants:        *)
(*     BLOCK  occurrences per group            (code: 1024)                *)
(*     SUB    occurrences per sub-group        (code: 32)                  *)
(*     MAXD   first span that makes a group sparse; also the capacity of   *)
(*            the 16-bit sub-group offsets     (code: 65536)               *)
(*     W      bits per word                    (code: 64)                  *)
(* TLC checks, for every bit vector up to MaxN bits, for ones and zeros,   *)
(* and for every k: the design's select equals the Level-0 clause          *)
(* (Clauses!BitSelect), every array access is in range, and every stored   *)
(* offset fits its field.                                                  *)
(* AsFoundSparseCount reproduces the defect repaired by the "fix:" commit  *)
(* (a sparse group pushed one sub-group entry per occurrence).             *)
(***************************************************************************)
EXTENDS Clauses, TLC

CONSTANTS BLOCK, SUB, MAXD, W, MaxN, AsFoundSparseCount, DenseTest  \* DenseTest: "<" (code) or "<=" (a seeded change)

VARIABLE B
vars == <<B>>

RECURSIVE SeqsUpTo(_)
SeqsUpTo(n) == IF n = 0 THEN {<< >>} ELSE LET R == SeqsUpTo(n - 1) IN R \cup {Append(s, b) : s \in {r \in R : Len(r) = n - 1}, b \in {0, 1}}

Init == B \in SeqsUpTo(MaxN)
Next == UNCHANGED B
Spec == Init /\ [][Next]_vars

---------------------------------------------------------------------------
(* Construction *)

\* 0-based positions of `bit`
Occ(bit) == LET P == Positions(B, bit) IN [q \in 1..Len(P) |-> P[q] - 1]

Chunk(P, c) == SubSeq(P, (c - 1) * BLOCK + 1, MinI(c * BLOCK, Len(P)))
NChunks(P) == (Len(P) + BLOCK - 1) \div BLOCK

IsDense(ch) == IF DenseTest = "<" THEN ch[Len(ch)] - ch[1] < MAXD ELSE ch[Len(ch)] - ch[1] <= MAXD

\* the u16 cast of the code
Trunc16(d) == d % MAXD

\* inventories after flushing chunks 1..c: [blk, sub, ovf]
RECURSIVE Inv(_, _)
Inv(P, c) ==
    IF c = 0 THEN [blk |-> << >>, sub |-> << >>, ovf |-> << >>]
    ELSE LET prev == Inv(P, c - 1)
             ch == Chunk(P, c)
         IN  IF IsDense(ch)
             THEN [blk |-> Append(prev.blk, ch[1]),
                   sub |-> prev.sub \o [t \in 1..((Len(ch) + SUB - 1) \div SUB) |-> Trunc16(ch[(t - 1) * SUB + 1] - ch[1])],
                   ovf |-> prev.ovf]
             ELSE [blk |-> Append(prev.blk, -(Len(prev.ovf)) - 1),
                   sub |-> prev.sub \o [t \in 1..(IF AsFoundSparseCount THEN Len(ch) ELSE (Len(ch) + SUB - 1) \div SUB) |-> MAXD - 1],
                   ovf |-> prev.ovf \o ch]

Inventory(bit) == LET P == Occ(bit) IN Inv(P, NChunks(P))

---------------------------------------------------------------------------
(* Query, following DArray::select statement by statement.  OOB marks an   *)
(* access outside an array.                                                *)

OOB == -99

NWords == (Len(B) + W - 1) \div W
\* set positions (0-based, inside the word) of word `wi` for `bit`; words past the data are an error
WordOcc(bit, wi, from) ==
    {p \in 0..(W - 1) : p >= from /\ (IF wi * W + p < Len(B) THEN B[wi * W + p + 1] = bit ELSE bit = 0)}

RECURSIVE Scan(_, _, _, _)
\* returns the absolute position of the rem-th occurrence scanning from word wi
Scan(bit, wi, from, rem) ==
    IF wi >= NWords THEN OOB
    ELSE LET occ == WordOcc(bit, wi, from)
         IN  IF rem < Cardinality(occ)
             THEN wi * W + (CHOOSE p \in occ : Cardinality({x \in occ : x < p}) = rem)
             ELSE Scan(bit, wi + 1, 0, rem - Cardinality(occ))

DSelect(bit, i) ==
    LET inv == Inventory(bit)
        nsets == Len(Occ(bit))
    IN  IF i >= nsets THEN NONE
        ELSE LET block == i \div BLOCK
                 bp == inv.blk[block + 1]
             IN  IF bp < 0
                 THEN LET idx == (-bp - 1) + (i % BLOCK)
                      IN  IF idx + 1 \in DOMAIN inv.ovf THEN inv.ovf[idx + 1] ELSE OOB
                 ELSE LET sb == i \div SUB
                      IN  IF sb + 1 \notin DOMAIN inv.sub THEN OOB
                          ELSE LET start == bp + inv.sub[sb + 1]
                                   rem == i % SUB
                               IN  IF rem = 0 THEN start
                                   ELSE Scan(bit, start \div W, start % W, rem)

---------------------------------------------------------------------------
(* Properties *)

\* the design answers exactly what the Level-0 clause demands
Refines ==
    \A bit \in {0, 1} :
        LET P == Positions(B, bit)
        IN  \A k \in 0..(Len(P) + 1) :
                LET cl == BitSelect("select", B, P, k)
                IN  Len(B) > 0 => DSelect(bit, k) \in cl.exp

\* every group contributes exactly ceil(size / SUB) sub-group entries, so that
\* sub-group i / SUB of occurrence i belongs to occurrence i's group
SubIndexing ==
    \A bit \in {0, 1} :
        LET P == Occ(bit) inv == Inventory(bit)
        IN  Len(inv.sub) = (IF Len(P) = 0 THEN 0
                            ELSE (NChunks(P) - 1) * (BLOCK \div SUB) + ((Len(Chunk(P, NChunks(P))) + SUB - 1) \div SUB))

\* dense offsets fit their 16-bit field without truncation
OffsetsFit ==
    \A bit \in {0, 1} :
        LET P == Occ(bit)
        IN  \A c \in 1..NChunks(P) : IsDense(Chunk(P, c)) => Chunk(P, c)[Len(Chunk(P, c))] - Chunk(P, c)[1] < MAXD

=============================================================================
