SPECIFICATION Spec
CONSTANTS
  WB = 3
  FullMaskCase = "code"
INVARIANT Refines
CHECK_DEADLOCK FALSE
