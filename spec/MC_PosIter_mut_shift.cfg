SPECIFICATION Spec
CONSTANTS
  MaxBits = 9
  WB = 4
  ShiftGuard = "wraps"
INVARIANT Refines
INVARIANT WordsInRange
INVARIANT WordFits
CHECK_DEADLOCK FALSE
