SPECIFICATION Spec
CONSTANTS
  Variant = "narrow"
  SUBBITS = 2
  SPB = 2
  LINE = 4
  HINT = 5
  FW = 2
  MaxN = 15
  HintTiming = "code"
INVARIANT Refines
INVARIANT FieldsFit
INVARIANT HintsBracket
CHECK_DEADLOCK FALSE
