---------------------------- MODULE BitVecLines ----------------------------
(***************************************************************************)
(* Level 1 design model of BitVectorMut's storage (C08, C19): a vector of  *)
(* fixed-size lines plus n_bits and n_ones, with the mutators written as   *)
(* the code writes them (push allocates a line when n_bits is a multiple   *)
(* of the line size, extend_with_zeros resizes to ceil(n_bits / LINE),     *)
(* Extend<usize> = extend_with_zeros + set, multi-bit reads may touch the  *)
(* following word).  TLC checks that it refines the Level-0 machine LibBV: *)
(* after every history the abstraction of the storage is the bit sequence  *)
(* LibBV computes, the counter is exact, the number of lines is exactly    *)
(* ceil(n_bits / LINE) (what makes == and the conversions to BitVector     *)
(* well defined), bits past n_bits are zero (zero padding of get_word),    *)
(* and reads never index past the storage.                                 *)
(***************************************************************************)
EXTENDS Clauses, TLC

CONSTANTS LINE,          \* bits per line (code: 512)
          W,             \* bits per word (code: 64); LINE is a multiple of W
          Depth, MaxLen,
          ZeroArgs, SetPos, PosArgs, BoolArgs,
          ZerosLines     \* "code": (n_bits + LINE - 1) div LINE ; "plus_one": n_bits div LINE + 1 (a seeded change)

VARIABLES data,   \* sequence of lines; a line is a sequence of LINE bits
          nbits, nones,
          abs,    \* the Level-0 value (LibBV's `bits`), advanced with the Mut* operators of Clauses
          depth

vars == <<data, nbits, nones, abs, depth>>

ZeroLine == [q \in 1..LINE |-> 0]
BitAt(d, p) == d[(p \div LINE) + 1][(p % LINE) + 1]
SetAt(d, p, b) == [d EXCEPT ![(p \div LINE) + 1][(p % LINE) + 1] = b]

Init == data = << >> /\ nbits = 0 /\ nones = 0 /\ abs = << >> /\ depth = 0

CanStep == depth < Depth /\ nbits <= MaxLen

\* push: a new line is allocated exactly when the current ones are full
PushImpl(d, n, b) ==
    LET d1 == IF n % LINE = 0 THEN Append(d, ZeroLine) ELSE d
    IN  IF b = 1 THEN [d1 EXCEPT ![Len(d1)][(n % LINE) + 1] = 1] ELSE d1

Push(b) ==
    /\ CanStep
    /\ data' = PushImpl(data, nbits, b)
    /\ nbits' = nbits + 1 /\ nones' = nones + b
    /\ abs' = MutPush(abs, b)
    /\ depth' = depth + 1

Resize(d, k) == IF k <= Len(d) THEN SubSeq(d, 1, k) ELSE d \o [q \in 1..(k - Len(d)) |-> ZeroLine]
LinesFor(n) == IF ZerosLines = "code" THEN (n + LINE - 1) \div LINE ELSE (n \div LINE) + 1

ExtendZeros(k) ==
    /\ CanStep
    /\ nbits' = nbits + k
    /\ data' = Resize(data, LinesFor(nbits + k))
    /\ nones' = nones
    /\ abs' = MutExtendZeros(abs, k)
    /\ depth' = depth + 1

Set(i, b) ==
    /\ CanStep /\ i < nbits
    /\ data' = SetAt(data, i, b)
    /\ nones' = nones + (IF b = 1 /\ BitAt(data, i) = 0 THEN 1 ELSE 0) - (IF b = 0 /\ BitAt(data, i) = 1 THEN 1 ELSE 0)
    /\ nbits' = nbits
    /\ abs' = MutSet(abs, i, b)
    /\ depth' = depth + 1

ExtendBools(bs) ==
    LET RECURSIVE Run(_)
        Run(t) == IF t = 0 THEN [d |-> data, n |-> nbits]
                  ELSE LET p == Run(t - 1) IN [d |-> PushImpl(p.d, p.n, bs[t]), n |-> p.n + 1]
        r == Run(Len(bs))
    IN  /\ CanStep
        /\ data' = r.d /\ nbits' = r.n
        /\ nones' = nones + Cardinality({t \in 1..Len(bs) : bs[t] = 1})
        /\ abs' = abs \o bs
        /\ depth' = depth + 1

\* Extend<usize>: for each position: zero-extend if needed, then set
ExtendPositions(rel) ==
    LET ps == [t \in 1..Len(rel) |-> rel[t] + nbits]
        RECURSIVE Run(_)
        Run(t) == IF t = 0 THEN [d |-> data, n |-> nbits, o |-> nones]
                  ELSE LET p == Run(t - 1)
                           pos == ps[t]
                           n2 == IF pos >= p.n THEN pos + 1 ELSE p.n
                           d2 == IF pos >= p.n THEN Resize(p.d, LinesFor(n2)) ELSE p.d
                       IN  [d |-> SetAt(d2, pos, 1), n |-> n2, o |-> p.o + (IF BitAt(d2, pos) = 0 THEN 1 ELSE 0)]
        r == Run(Len(ps))
    IN  /\ CanStep /\ StrictlyIncreasing(ps)
        /\ data' = r.d /\ nbits' = r.n /\ nones' = r.o
        /\ abs' = MutExtendPositions(abs, ps)
        /\ depth' = depth + 1

Next ==
    \/ \E b \in {0, 1} : Push(b)
    \/ \E k \in ZeroArgs : ExtendZeros(k)
    \/ \E i \in SetPos, b \in {0, 1} : Set(i, b)
    \/ \E bs \in BoolArgs : ExtendBools(bs)
    \/ \E rel \in PosArgs : ExtendPositions(rel)

Spec == Init /\ [][Next]_vars

---------------------------------------------------------------------------
(* Refinement and representation invariants *)

\* the bits the storage denotes
Abstraction == [q \in 1..nbits |-> BitAt(data, q - 1)]

RefinesLibBV == Abstraction = abs /\ nones = Cardinality({q \in 1..Len(abs) : abs[q] = 1})

\* exactly as many lines as the length needs: two vectors with the same bits have the same
\* storage, and a pushed bit lands in the line that reads look at
LineCount == Len(data) = (nbits + LINE - 1) \div LINE

\* zero padding after the last bit (whole-word reads, == on the storage)
PaddingZero == \A l \in 1..Len(data) : \A q \in 1..LINE : (l - 1) * LINE + q > nbits => data[l][q] = 0

\* get_bits_slice(index, len) with index + len <= n_bits reads word `index div W` and, when the
\* read crosses a word boundary, the next word: both exist
ReadsInRange ==
    LET nwords == Len(data) * (LINE \div W)
    IN  \A i \in 0..nbits : \A len \in 1..W :
          i + len <= nbits =>
              /\ i \div W < nwords
              /\ ((i % W) + len > W => (i \div W) + 1 < nwords)

NoDepth == <<data, nbits, nones, abs>>
=============================================================================
