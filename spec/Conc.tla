-------------------------------- MODULE Conc --------------------------------
(***************************************************************************)
(* Level 0 schedule model for C18: several threads query ONE shared,       *)
(* immutable select structure through a shared reference.  Every query is  *)
(* split into the memory accesses it performs, and TLC explores every      *)
(* interleaving.                                                           *)
(*                                                                         *)
(* MemoMode = "none" is qwt as it is: a query reads only the immutable     *)
(* value, so every interleaving gives every thread the sequential answers  *)
(* (the invariant Linear holds trivially *because* Pure holds - that is    *)
(* the design claim of C18).                                               *)
(* The other two modes model a "last select" memo hidden in the structure  *)
(* (next expected index + last answered position), the kind of interior    *)
(* mutability that Send + Sync alone does not rule out when it is built    *)
(* from atomics:                                                           *)
(*   "atomic_pair": both fields are read / written in one step - correct;  *)
(*   "torn": two separate atomics, read and written one after the other -  *)
(*           correct for one thread, wrong under some interleavings of     *)
(*           two: TLC produces the schedule.  This is what the thread      *)
(*           campaign of the C18 check must be able to hit in the real     *)
(*           code (it does: seeded change C18-m2).                         *)
(* Two further modes are the other designs independent authors seeded:     *)
(*   "tls_scratch": a per-thread scratch offset that a query assumes to be *)
(*           zero on entry and that the early "None" exit forgets to       *)
(*           reset (C18-m3): no thread ever sees another thread's state,   *)
(*           yet answers depend on the thread's own history - Linear fails *)
(*           with a single thread;                                         *)
(*   "lazy_once": a table built by the first query behind a once-cell      *)
(*           (C18-m4): every answer is right under every interleaving      *)
(*           (Linear holds), but a query writes shared state - the value   *)
(*           (and its serialized form) changes: NoSharedWrite fails.  Only *)
(*           the purity half of the check can see this class.              *)
(***************************************************************************)
EXTENDS Clauses, TLC

CONSTANTS Threads, B, Scan, MemoMode   \* B: the shared bit vector; Scan: the k's each thread asks for select1

P == Positions(B, 1)
Answer(k) == IF k < Len(P) THEN P[k + 1] - 1 ELSE NONE
\* next set bit strictly after position p
NextAfter(p) == LET c == {q \in 1..Len(P) : P[q] - 1 > p} IN IF c = {} THEN NONE ELSE P[CHOOSE q \in c : \A r \in c : q <= r] - 1

VARIABLES pc,      \* thread -> [q: index into Scan, st: micro step]
          loc,     \* thread-local registers
          res,     \* thread -> answers so far
          memoNext, memoPos   \* the hidden shared memo

vars == <<pc, loc, res, memoNext, memoPos>>

Init == /\ pc = [t \in Threads |-> [q |-> 1, st |-> "start"]]
        /\ loc = [t \in Threads |-> [nx |-> -1, ps |-> -1, ans |-> -1]]
        /\ res = [t \in Threads |-> << >>]
        /\ memoNext = -1 /\ memoPos = -1

Done(t) == pc[t].q > Len(Scan)
K(t) == Scan[pc[t].q]

Finish(t, a) ==
    /\ res' = [res EXCEPT ![t] = Append(@, a)]
    /\ pc' = [pc EXCEPT ![t] = [q |-> @.q + 1, st |-> "start"]]

\* no memo: one step, reads only the immutable value
StepPure(t) ==
    /\ MemoMode = "none" /\ ~Done(t) /\ pc[t].st = "start"
    /\ Finish(t, Answer(K(t)))
    /\ UNCHANGED <<loc, memoNext, memoPos>>

\* memo read and written as one pair
StepAtomic(t) ==
    /\ MemoMode = "atomic_pair" /\ ~Done(t) /\ pc[t].st = "start"
    /\ LET a == IF memoNext = K(t) /\ memoPos >= 0 THEN NextAfter(memoPos) ELSE Answer(K(t))
       IN  /\ Finish(t, a)
           /\ memoNext' = K(t) + 1 /\ memoPos' = IF a = NONE THEN -1 ELSE a
    /\ UNCHANGED loc

\* torn memo: four separate accesses
ReadNext(t) ==
    /\ MemoMode = "torn" /\ ~Done(t) /\ pc[t].st = "start"
    /\ loc' = [loc EXCEPT ![t].nx = memoNext]
    /\ pc' = [pc EXCEPT ![t].st = "readpos"]
    /\ UNCHANGED <<res, memoNext, memoPos>>
ReadPos(t) ==
    /\ MemoMode = "torn" /\ pc[t].st = "readpos"
    /\ loc' = [loc EXCEPT ![t].ps = memoPos,
                          ![t].ans = IF loc[t].nx = K(t) /\ memoPos >= 0 THEN NextAfter(memoPos) ELSE Answer(K(t))]
    /\ pc' = [pc EXCEPT ![t].st = "writenext"]
    /\ UNCHANGED <<res, memoNext, memoPos>>
WriteNext(t) ==
    /\ MemoMode = "torn" /\ pc[t].st = "writenext"
    /\ memoNext' = K(t) + 1
    /\ pc' = [pc EXCEPT ![t].st = "writepos"]
    /\ UNCHANGED <<loc, res, memoPos>>
WritePos(t) ==
    /\ MemoMode = "torn" /\ pc[t].st = "writepos"
    /\ memoPos' = IF loc[t].ans = NONE THEN -1 ELSE loc[t].ans
    /\ Finish(t, loc[t].ans)
    /\ UNCHANGED <<loc, memoNext>>

\* per-thread scratch offset, left dirty by the early exit
StepTls(t) ==
    /\ MemoMode = "tls_scratch" /\ ~Done(t) /\ pc[t].st = "start"
    /\ LET off == IF loc[t].nx >= 0 THEN loc[t].nx ELSE 0
           a == Answer(K(t) + off)
       IN  /\ Finish(t, a)
           /\ loc' = [loc EXCEPT ![t].nx = IF a = NONE THEN 1 ELSE 0]
    /\ UNCHANGED <<memoNext, memoPos>>

\* table built on first use behind a once-cell: check, then (one thread) build
LazyCheck(t) ==
    /\ MemoMode = "lazy_once" /\ ~Done(t) /\ pc[t].st = "start"
    /\ IF memoNext = 1
       THEN Finish(t, Answer(K(t))) /\ UNCHANGED <<loc, memoNext, memoPos>>
       ELSE pc' = [pc EXCEPT ![t].st = "build"] /\ UNCHANGED <<loc, res, memoNext, memoPos>>
LazyBuild(t) ==
    /\ MemoMode = "lazy_once" /\ pc[t].st = "build"
    /\ memoNext' = 1
    /\ Finish(t, Answer(K(t)))
    /\ UNCHANGED <<loc, memoPos>>

Next == \E t \in Threads : \/ StepPure(t) \/ StepAtomic(t) \/ ReadNext(t) \/ ReadPos(t) \/ WriteNext(t) \/ WritePos(t)
                          \/ StepTls(t) \/ LazyCheck(t) \/ LazyBuild(t)
Spec == Init /\ [][Next]_vars

\* C18: under every interleaving every thread obtains exactly the answers a single thread obtains
Linear == \A t \in Threads : \A j \in 1..Len(res[t]) : res[t][j] = Answer(Scan[j])
\* queries never modify the (abstract) value: the only state a "none" query touches is its own
Pure == MemoMode = "none" => memoNext = -1 /\ memoPos = -1
\* the same demand on every design: a query writes nothing another query can read
NoSharedWrite == memoNext = -1 /\ memoPos = -1
=============================================================================
