----------------------------- MODULE MC_LibConv -----------------------------
EXTENDS LibConv
\* reachability: from the source kinds of a family every kind of the family is reached in one step
ASSUME {"BV", "BVM", "RSN", "RSW", "DA0", "DA1"} \subseteq ({"BVM"} \cup {ConvKind(m, "BVM") : m \in ConvMethods("BVM")}
                                                          \cup {ConvKind(m, "BV") : m \in ConvMethods("BV")})
ASSUME {"QV", "RSQ256", "RSQ512"} \subseteq ({ConvKind(m, "QB") : m \in ConvMethods("QB")} \cup {ConvKind(m, "QV") : m \in ConvMethods("QV")})
AllStarts == AllKindNames
GenStarts == {"BVM", "BV", "QB", "QV", "QWT256", "HQWT512Pfs", "WT", "HWT"}
=============================================================================
