------------------------------ MODULE AbsSeq ------------------------------
(***************************************************************************)
(* Level 0, part 1: the plain sequences that every qwt structure denotes, *)
(* and the queries on them.  Pure definitions, no state.                   *)
(*                                                                         *)
(* Conventions shared with the harness (see DESIGN.md, Appendix A):        *)
(*  - a sequence S is a TLA+ sequence (1-based); API positions are 0-based *)
(*  - an integer argument a < 0 is a token for a value >= 2^31 ("HUGE"),   *)
(*    larger than every length that occurs                                 *)
(*  - a symbol / integer value is <<sign, limb_1, ..., limb_k>>, base 2^24,*)
(*    most significant limb first, no leading zero limb (0 is <<0>>)       *)
(*  - result codes: v >= 0 is Some(v) / the value; -1 None; -2 panic;      *)
(*    -3 a value >= 2^31-1; -4 crash; -5 not applicable; -9 skipped        *)
(***************************************************************************)
EXTENDS Integers, Sequences, FiniteSets

\* CommunityModules operators are used through instances (their Java overrides
\* still apply) so that their many short names do not clash with ours
SX == INSTANCE SequencesExt
FX == INSTANCE FiniteSetsExt

NONE == -1
PANIC == -2
HUGERES == -3
CRASH == -4
NA == -5
SKIP == -9

IsHuge(a) == a < 0

MaxI(a, b) == IF a >= b THEN a ELSE b
MinI(a, b) == IF a <= b THEN a ELSE b

---------------------------------------------------------------------------
(* Symbols as limb tuples *)

SymSign(s) == s[1]
SymIsZero(s) == Len(s) = 1

\* a < b for non-negative symbols
SymLess(a, b) ==
    IF Len(a) # Len(b) THEN Len(a) < Len(b)
    ELSE \E i \in 2..Len(a) : /\ a[i] < b[i]
                              /\ \A j \in 2..(i-1) : a[j] = b[j]

SymLeq(a, b) == a = b \/ SymLess(a, b)

\* bit length of a limb (limbs are < 2^24)
RECURSIVE BitLen(_)
BitLen(x) == IF x = 0 THEN 0 ELSE 1 + BitLen(x \div 2)

RECURSIVE Pow2(_)
Pow2(k) == IF k = 0 THEN 1 ELSE 2 * Pow2(k - 1)

\* bit i (0 = least significant) of a non-negative symbol
SymBitAt(s, i) ==
    LET li == i \div 24
    IN  IF li >= Len(s) - 1 THEN 0 ELSE (s[Len(s) - li] \div Pow2(i % 24)) % 2

\* number of bits needed for the symbol (0 for zero)
SymBitLen(s) == IF Len(s) = 1 THEN 0 ELSE 24 * (Len(s) - 2) + BitLen(s[2])

\* v mod 4 in two's complement for a signed value <<sign, limbs...>>
SymMod4(s) ==
    IF Len(s) = 1 THEN 0
    ELSE LET m == s[Len(s)] % 4
         IN  IF s[1] = 0 THEN m ELSE (4 - m) % 4

\* value of a symbol that fits an integer below 2^30 (used for table sizes)
SymSmall(s) == Len(s) <= 2 \/ (Len(s) = 3 /\ s[2] < 64)
SymToInt(s) == IF Len(s) = 1 THEN 0
               ELSE IF Len(s) = 2 THEN s[2]
               ELSE s[2] * 16777216 + s[3]

---------------------------------------------------------------------------
(* Segment lists: <<[pat |-> <<..>>, rep |-> k], ...>> *)

SegLen(seg) == Len(seg.pat) * seg.rep

RECURSIVE FlatFrom(_, _)
FlatFrom(segs, j) ==
    IF j > Len(segs) THEN << >>
    ELSE LET seg == segs[j]
             m == Len(seg.pat)
             part == IF seg.rep = 1 THEN seg.pat
                     ELSE [q \in 1..(m * seg.rep) |-> seg.pat[((q - 1) % m) + 1]]
         IN  part \o FlatFrom(segs, j + 1)

Flat(segs) == FlatFrom(segs, 1)

\* pattern entries that really occur
UsedIds(segs) == UNION { {segs[j].pat[q] : q \in 1..Len(segs[j].pat)} :
                         j \in {jj \in 1..Len(segs) : segs[jj].rep > 0} }

---------------------------------------------------------------------------
(* Queries on a plain sequence *)

Idx(S) == [p \in 1..Len(S) |-> p]

\* ascending 1-based positions of x in S
Positions(S, x) == SelectSeq(Idx(S), LAMBDA p : S[p] = x)

\* number of elements of the ascending list P that are <= x
RECURSIVE BSearch(_, _, _, _)
BSearch(P, x, lo, hi) ==
    IF lo > hi THEN hi
    ELSE LET mid == (lo + hi) \div 2
         IN  IF P[mid] <= x THEN BSearch(P, x, mid + 1, hi)
                            ELSE BSearch(P, x, lo, mid - 1)
CountLE(P, x) == BSearch(P, x, 1, Len(P))

\* occurrences of x in S[0..i) given P = Positions(S, x)
RankP(P, i) == CountLE(P, i)
\* 0-based position of the (k+1)-th occurrence
SelectP(P, k) == P[k + 1] - 1

\* direct definitions (used on small sequences and in the design models)
Rank(S, x, i) == Cardinality({p \in 1..MinI(i, Len(S)) : S[p] = x})
Count(S, x) == Rank(S, x, Len(S))
Select(S, x, k) == CHOOSE p \in 0..(Len(S) - 1) : S[p + 1] = x /\ Rank(S, x, p) = k
CountSmaller(S, x) == Cardinality({p \in 1..Len(S) : S[p] < x})

\* bits of S[i .. i+len) as the ascending list of offsets whose bit is 1
BitsAt(S, i, len) == SelectSeq([q \in 1..len |-> q - 1], LAMBDA q : S[i + q + 1] = 1)

\* word w of S, zero padded
WordAt(S, w) == SelectSeq([q \in 1..64 |-> q - 1],
                          LAMBDA q : 64 * w + q + 1 <= Len(S) /\ S[64 * w + q + 1] = 1)

\* a word given as a list of set positions, restricted to the low len bits, as bit list
WordBits(w, len) == [q \in 1..len |-> IF \E t \in 1..Len(w) : w[t] = q - 1 THEN 1 ELSE 0]
WordStray(w, len) == \E t \in 1..Len(w) : w[t] >= len

SeqMax(s) == CHOOSE x \in {s[i] : i \in 1..Len(s)} : \A i \in 1..Len(s) : s[i] <= x

============================================================================
