------------------------------ MODULE LibConv ------------------------------
(***************************************************************************)
(* Level 0 type-state machine of the conversions (C19, C11, C08): a value  *)
(* of some kind is converted again and again - clone, serde round trip,    *)
(* rebuilt from its own iterator, BitVectorMut <-> BitVector, BitVector -> *)
(* RSNarrow / RSWide / DArray, builder -> QVector -> RSQVector.  The       *)
(* abstract sequence never changes (that is the property); what the        *)
(* machine tracks is the kind.  TLC checks that the graph is closed, keeps *)
(* the family, has no dead end and that every kind of a family is          *)
(* reachable from the family's source kind, and enumerates every           *)
(* conversion chain up to Depth (Gen_conv_*.cfg), which qwt-drive replays  *)
(* on real values with the observations of the final kind at the end.      *)
(***************************************************************************)
EXTENDS Clauses, TLC, Json

CONSTANTS StartKinds, Depth

VARIABLES start, kind, hist
vars == <<start, kind, hist>>

Init == start \in StartKinds /\ kind = start /\ hist = << >>

Step(m) ==
    /\ Len(hist) < Depth
    /\ m \in ConvMethods(kind)
    /\ kind' = ConvKind(m, kind)
    /\ hist' = Append(hist, m)
    /\ UNCHANGED start

Next == \E m \in UNION {ConvMethods(k) : k \in AllKindNames} : Step(m)
Spec == Init /\ [][Next]_vars

\* the graph is closed and a conversion never leaves the family (a builder becomes a quad vector)
Fam2(k) == IF k = "QB" THEN "Q" ELSE FamOfKind(k)
Closed == kind \in AllKindNames /\ Fam2(kind) = Fam2(start)
\* every value can at least be copied
NoDeadEnd == ConvMethods(kind) # {}
\* only the listed methods change the kind; copies keep it
CopiesKeepKind == [][\A m \in {"clone", "serde", "collect_iter"} : Step(m) => kind' = kind]_vars
\* a tree stays the same tree type
TreesStay == start \in TreeKindNames => kind = start

NoHist == <<start, kind>>
Emit == (Len(hist) = Depth) => PrintT(<<"BEH", ToJson([start |-> start, ms |-> hist])>>)
=============================================================================
