SPECIFICATION Spec
CONSTANTS
  StartKinds <- GenStarts
  Depth = 3
INVARIANT Emit
INVARIANT Closed
CHECK_DEADLOCK FALSE
