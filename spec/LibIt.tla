------------------------------- MODULE LibIt -------------------------------
(***************************************************************************)
(* Level 0 state machine of the iterators (C12): one double-ended,         *)
(* exact-size iterator over a sequence of n elements, driven by any        *)
(* history of next / next_back / len calls, including calls after          *)
(* exhaustion.  The step functions ItNext, ItBack, ItLen (Clauses.tla) are *)
(* the ones TraceLib folds over recorded call words, so what TLC proves    *)
(* here is a property of the oracle that judges the real iterators.        *)
(* Forward-only iterators (bit / quad / position iterators) are the        *)
(* restriction of this machine to histories without next_back.             *)
(***************************************************************************)
EXTENDS Clauses, TLC, Json

CONSTANTS Lens,   \* lengths of the underlying sequence
          Extra   \* histories have length n + Extra

VARIABLES n, it, front, back, hist

vars == <<n, it, front, back, hist>>

S == [q \in 1..n |-> q]   \* elements are their own (1-based) positions

Init == /\ n \in Lens
        /\ it = ItInit([q \in 1..n |-> q])
        /\ front = << >> /\ back = << >> /\ hist = << >>

CanStep == Len(hist) < n + Extra

CallNext ==
    /\ CanStep
    /\ front' = IF ItNextOut(S, it) # NONE THEN Append(front, ItNextOut(S, it)) ELSE front
    /\ it' = ItNext(S, it)
    /\ hist' = Append(hist, "n")
    /\ UNCHANGED <<n, back>>

CallNextBack ==
    /\ CanStep
    /\ back' = IF ItBackOut(S, it) # NONE THEN Append(back, ItBackOut(S, it)) ELSE back
    /\ it' = ItBack(S, it)
    /\ hist' = Append(hist, "b")
    /\ UNCHANGED <<n, front>>

CallLen ==
    /\ CanStep
    /\ hist' = Append(hist, "l")
    /\ UNCHANGED <<n, it, front, back>>

Next == CallNext \/ CallNextBack \/ CallLen

Spec == Init /\ [][Next]_vars

---------------------------------------------------------------------------
(* C12 *)

\* front elements come in order, back elements in reverse order
FrontInOrder == front = [q \in 1..Len(front) |-> q]
BackInReverse == back = [q \in 1..Len(back) |-> n - q + 1]
\* each element exactly once: the two ends never cross
OnceOnly == Len(front) + Len(back) <= n /\ \A i \in 1..Len(front), j \in 1..Len(back) : front[i] # back[j]
\* len() is the number of elements not yet yielded
ExactLen == ItLen(it) = n - Len(front) - Len(back) /\ ItLen(it) >= 0
\* once exhausted: None from both ends and length 0 ...
Exhausted == it.f >= it.b
ExhaustedNone == Exhausted => ItNextOut(S, it) = NONE /\ ItBackOut(S, it) = NONE /\ ItLen(it) = 0
\* ... forever
ExhaustedForever == [][Exhausted => Exhausted']_vars
\* everything is yielded before None
CompleteBeforeNone == (ItNextOut(S, it) = NONE \/ ItBackOut(S, it) = NONE) => Len(front) + Len(back) = n

\* the skipping calls (Iterator::nth, DoubleEndedIterator::nth_back) are k + 1 plain calls of which
\* only the last answer is kept: TraceLib judges overridden nth / nth_back with ItNth / ItNthBack
RECURSIVE NextK(_, _)
NextK(x, k) == IF k = 0 THEN x ELSE NextK(ItNext(S, x), k - 1)
RECURSIVE BackK(_, _)
BackK(x, k) == IF k = 0 THEN x ELSE BackK(ItBack(S, x), k - 1)
NthIsRepeatedNext == \A k \in 0..4 :
    /\ ItNth(S, it, k) = NextK(it, k + 1)
    /\ ItNthOut(S, it, k) = ItNextOut(S, NextK(it, k))
    /\ ItNthBack(S, it, k) = BackK(it, k + 1)
    /\ ItNthBackOut(S, it, k) = ItBackOut(S, BackK(it, k))

NoHist == <<n, it, front, back>>

Emit == Len(hist) = n + Extra => PrintT(<<"BEH", ToJson([n |-> n, ops |-> hist])>>)
=============================================================================
