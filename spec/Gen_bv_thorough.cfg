SPECIFICATION Spec
CONSTANTS
  Depth = 3
  MaxLen = 1300
  PushVals = {0, 1}
  AppendArgs <- R_AppendArgs
  ZeroArgs <- R_ZeroArgs
  SetPos <- R_SetPos
  SetBitsArgs <- R_SetBitsArgs
  BoolArgs <- R_BoolArgs
  PosArgs <- R_PosArgs
  Back = 2
  AsFoundSetBits = FALSE
  PosCount = "per_position"
INVARIANT Emit
INVARIANT CountInv
CHECK_DEADLOCK FALSE
