SPECIFICATION Spec
CONSTANTS
  Sharing = "shared"
  Depth = 3
  PoolMethods <- AllPoolMethods
INVARIANT TypeOK
INVARIANT Stamped
PROPERTY Independent
PROPERTY KeptUntouched
PROPERTY OnlyBVMGrows
CHECK_DEADLOCK FALSE
