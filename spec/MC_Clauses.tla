----------------------------- MODULE MC_Clauses -----------------------------
(***************************************************************************)
(* Level 0 meta-properties of the clause tables, checked by TLC over every *)
(* small sequence and every argument, including the huge-value tokens:     *)
(*   Total      every table gives a clause for every argument; no clause   *)
(*              outside the documented-panic ones allows a panic or crash  *)
(*              (C04: the safe API is total);                              *)
(*   Determined outside the "empty structure" clauses the allowed set is a *)
(*              single outcome (the library is deterministic);             *)
(*   Definitions the clause outcomes are the direct definitions of         *)
(*              rank / select / get on the plain sequence (the binary      *)
(*              search over position lists used for speed is right);       *)
(*   PreImpliesSome  whenever the documented precondition of an unchecked  *)
(*              method holds, the checked method's clause is a Some-clause *)
(*              (C10 is well posed: "equals the checked twin" is never     *)
(*              compared against None);                                    *)
(*   InvalidIsNone   every argument that does not denote a valid position, *)
(*              symbol or occurrence gets exactly None (C04, second half). *)
(***************************************************************************)
EXTENDS Clauses, TLC

CONSTANTS MaxN, MaxSym

VARIABLE S
vars == <<S>>

RECURSIVE SeqsOver(_)
SeqsOver(n) == IF n = 0 THEN {<< >>}
               ELSE LET R == SeqsOver(n - 1) IN R \cup {Append(s, a) : s \in {r \in R : Len(r) = n - 1}, a \in 0..MaxSym}
Init == S \in SeqsOver(MaxN)
Next == UNCHANGED S
Spec == Init /\ [][Next]_vars

N == Len(S)
Sym(v) == IF v = 0 THEN <<0>> ELSE <<0, v>>
MaxOf == IF N = 0 THEN 0 ELSE CHOOSE x \in {S[q] : q \in 1..N} : \A q \in 1..N : S[q] <= x
Args == (0..(N + 2)) \cup {-1, -2, -4}
Syms == 0..(MaxSym + 2)
Fams == {"QWT", "HQWT", "WT", "HWT"}
Bad == {PANIC, CRASH, HUGERES}

TreeCl(fam, m, c, a) ==
    LET P == Positions(S, c) used == Len(P) > 0
    IN  IF m = "rank" THEN TreeRank(fam, N, Sym(MaxOf), Sym(c), used, P, a)
        ELSE TreeSelect(fam, N, Sym(MaxOf), Sym(c), used, P, a)

Total ==
    /\ \A fam \in Fams, m \in {"rank", "select"}, c \in Syms, a \in Args :
          LET cl == TreeCl(fam, m, c, a) IN ~cl.any /\ cl.exp # {} /\ cl.exp \cap Bad = {}
    /\ \A a \in Args : LET cl == QuadGet(S, a) IN cl.exp # {} /\ cl.exp \cap Bad = {}

Determined ==
    \A fam \in Fams, m \in {"rank", "select"}, c \in Syms, a \in Args :
        N > 0 => Cardinality(TreeCl(fam, m, c, a).exp) = 1

Definitions ==
    \A fam \in Fams, c \in Syms, a \in 0..(N + 1) :
        LET used == \E q \in 1..N : S[q] = c
            valid == IF PlainFam(fam) THEN c <= MaxOf ELSE used
        IN  /\ (N > 0 /\ a <= N /\ valid) => TreeCl(fam, "rank", c, a).exp = {Rank(S, c, a)}
            /\ (N > 0 /\ a < Count(S, c) /\ valid) => TreeCl(fam, "select", c, a).exp = {Select(S, c, a)}

PreImpliesSome ==
    \A fam \in Fams, c \in Syms, a \in Args :
        LET P == Positions(S, c) used == Len(P) > 0
        IN  /\ TreeRankPre(fam, N, Sym(MaxOf), Sym(c), used, a) => \A r \in TreeCl(fam, "rank", c, a).exp : r >= 0
            /\ TreeSelectPre(used, P, a) => \A r \in TreeCl(fam, "select", c, a).exp : r >= 0

InvalidIsNone ==
    \A fam \in Fams, c \in Syms, a \in Args :
        LET used == \E q \in 1..N : S[q] = c
            validsym == IF PlainFam(fam) THEN c <= MaxOf ELSE used
        IN  /\ (N > 0 /\ (a < 0 \/ a > N \/ ~validsym)) => TreeCl(fam, "rank", c, a).exp = {NONE}
            /\ (N > 0 /\ (a < 0 \/ a >= Count(S, c) \/ ~validsym)) => TreeCl(fam, "select", c, a).exp = {NONE}
========================================================================
\* limb arithmetic of the "big" bit-structure clauses: BigAdd agrees with integer addition
\* wherever the values still fit TLC's integers (two limbs below the top bit), carries and
\* borrows across the limb boundary included
Val3(x) == x[2] * LIMB + x[3]
BigAddBases == {<<0, 1, 0>>, <<0, 1, 5>>, <<0, 1, LIMB - 1>>, <<0, 63, LIMB - 3>>, <<0, 2, 0>>}
BigAddDeltas == {-(LIMB + 5), -LIMB, -(LIMB - 1), -6, -5, -1, 0, 1, 2, 5, LIMB - 6, LIMB - 5, LIMB - 1, LIMB, LIMB + 1, 3 * LIMB + 7, 1073741823}
ASSUME \A x \in BigAddBases, dd \in BigAddDeltas :
          (Val3(x) + dd >= LIMB /\ Val3(x) + dd < 127 * LIMB) =>
              LET r == BigAdd(x, dd) IN Len(r) = 3 /\ r[1] = 0 /\ r[3] \in 0..(LIMB - 1) /\ Val3(r) = Val3(x) + dd
ASSUME SmallNum(0) = <<0>> /\ SmallNum(7) = <<0, 7>> /\ SmallNum(LIMB) = <<0, 1, 0>> /\ SmallNum(LIMB + 9) = <<0, 1, 9>>
=====
