------------------------------ MODULE LibItInd ------------------------------
(***************************************************************************)
(* Inductive invariant for the iterator machine of LibIt.tla over an       *)
(* UNBOUNDED sequence length (Apalache; integers only).  The sequence is   *)
(* abstracted to its index range 0..n-1: the k-th element yielded from the *)
(* front is index k-1 and the k-th from the back is index n-k, which is    *)
(* what `yf = f` and `yb = n - b` say.                                     *)
(*   apalache-mc check --init=Init --inv=IndInv --length=0 LibItInd.tla    *)
(*   apalache-mc check --init=IndInit --inv=IndInv --length=1 LibItInd.tla *)
(*   apalache-mc check --init=IndInit --inv=Safety --length=0 LibItInd.tla *)
(***************************************************************************)
EXTENDS Integers

VARIABLES
    \* @type: Int;
    n,
    \* @type: Int;
    f,
    \* @type: Int;
    b,
    \* @type: Int;
    yf,
    \* @type: Int;
    yb,
    \* @type: Int;
    last

Init == n \in Nat /\ f = 0 /\ b = n /\ yf = 0 /\ yb = 0 /\ last = -2

CallNext ==
    /\ IF f < b THEN f' = f + 1 /\ yf' = yf + 1 /\ last' = f
                ELSE f' = f /\ yf' = yf /\ last' = -1
    /\ UNCHANGED <<n, b, yb>>
CallNextBack ==
    /\ IF f < b THEN b' = b - 1 /\ yb' = yb + 1 /\ last' = b - 1
                ELSE b' = b /\ yb' = yb /\ last' = -1
    /\ UNCHANGED <<n, f, yf>>
CallLen == last' = b - f /\ UNCHANGED <<n, f, b, yf, yb>>
Next == CallNext \/ CallNextBack \/ CallLen

IndInv == /\ n >= 0 /\ 0 <= f /\ f <= b /\ b <= n
          /\ yf = f /\ yb = n - b
          /\ last >= -2
IndInit == n \in Int /\ f \in Int /\ b \in Int /\ yf \in Int /\ yb \in Int /\ last \in Int /\ IndInv

\* what C12 states, as consequences of the inductive invariant
Safety == /\ b - f = n - yf - yb        \* len() = elements not yet yielded
          /\ yf + yb <= n               \* nothing is yielded twice
          /\ (f = b => yf + yb = n)     \* None only after everything was yielded
==============================================================================
