------------------------------- MODULE PosIter -------------------------------
(***************************************************************************)
(* Level 1 design model of `BitVectorBitPositionsIter<BIT>` (C12, and the  *)
(* way DArray reads its input: C07): the iterator over the positions of    *)
(* the ones (zeros) of a bit vector stored in words of WB bits (code: 64). *)
(* Transcribed: `new`, `with_pos` (word index pos / WB, the word shifted   *)
(* right by pos % WB, zero beyond the data), `next` (the refill loop over  *)
(* zero words, trailing zeros, the shift by l + 1 with its guard for       *)
(* l = WB - 1, the final comparison with n_bits that hides the padding of  *)
(* the negated last word).  The machine is the real one: a state is the    *)
(* iterator's fields, a step is one call of next().                        *)
(* TLC checks for every bit vector up to MaxBits, both values of BIT and   *)
(* every starting position (also beyond the end) that the answers are the  *)
(* positions >= pos in increasing order, then None forever, and that every *)
(* word index used is inside the data.                                     *)
(***************************************************************************)
EXTENDS Clauses, TLC

CONSTANTS MaxBits, WB,
          ShiftGuard   \* "code": cur_word = 0 when l >= WB - 1 ; "wraps": the shift amount wraps (seeded change)

VARIABLES bits, bit, start, cp, cwp, cw, out, ncalls, oob
vars == <<bits, bit, start, cp, cwp, cw, out, ncalls, oob>>

RECURSIVE BSeqs(_)
BSeqs(n) == IF n = 0 THEN {<< >>} ELSE {Append(s, b) : s \in BSeqs(n - 1), b \in {0, 1}}
AllBits == UNION {BSeqs(n) : n \in 0..MaxBits}

NWords(B) == (Len(B) + WB - 1) \div WB
\* word w of the zero-padded data, as an integer; negated for the zeros iterator
BitAt(B, p) == IF p < Len(B) THEN B[p + 1] ELSE 0
WordVal(B, w) ==
    LET F[b \in 0..WB] == IF b = 0 THEN 0 ELSE F[b - 1] + BitAt(B, w * WB + b - 1) * Pow2(b - 1)
    IN  F[WB]
DataWord(B, bt, w) == IF bt = 1 THEN WordVal(B, w) ELSE Pow2(WB) - 1 - WordVal(B, w)
TrailingZeros(x) == CHOOSE l \in 0..(WB - 1) : x % Pow2(l + 1) = Pow2(l)

NoStart == -1
Init ==
    /\ bits \in AllBits /\ bit \in {0, 1}
    /\ start \in {NoStart} \cup (0..(MaxBits + WB + 1))
    /\ out = << >> /\ ncalls = 0
    /\ IF start = NoStart
       THEN cp = 0 /\ cwp = 0 /\ cw = 0 /\ oob = FALSE
       ELSE LET w == start \div WB
                word == IF w < NWords(bits) THEN DataWord(bits, bit, w) ELSE 0
            IN  cp = start /\ cwp = w + 1 /\ cw = word \div Pow2(start % WB) /\ oob = FALSE

\* the refill loop: returns <<cw, cp, cwp, found>> after skipping zero words
RECURSIVE Refill(_, _, _)
Refill(w0, p0, wp0) ==
    IF w0 # 0 THEN <<w0, p0, wp0, TRUE>>
    ELSE IF wp0 < NWords(bits) THEN Refill(DataWord(bits, bit, wp0), wp0 * WB, wp0 + 1)
    ELSE <<w0, p0, wp0, FALSE>>

CallNext ==
    /\ ncalls < Len(bits) + 4
    /\ ncalls' = ncalls + 1
    /\ UNCHANGED <<bits, bit, start, oob>>
    /\ IF cp >= Len(bits)
       THEN out' = Append(out, NONE) /\ UNCHANGED <<cp, cwp, cw>>
       ELSE LET r == Refill(cw, cp, cwp)
            IN  IF ~r[4]
                THEN out' = Append(out, NONE) /\ cw' = r[1] /\ cp' = r[2] /\ cwp' = r[3]
                ELSE LET l == TrailingZeros(r[1])
                         pos == r[2] + l
                     IN  /\ cw' = IF l >= WB - 1 THEN (IF ShiftGuard = "code" THEN 0 ELSE r[1])
                                  ELSE r[1] \div Pow2(l + 1)
                         /\ cp' = pos + 1
                         /\ cwp' = r[3]
                         /\ out' = Append(out, IF pos >= Len(bits) THEN NONE ELSE pos)

Next == CallNext
Spec == Init /\ [][Next]_vars

---------------------------------------------------------------------------
From == IF start = NoStart THEN 0 ELSE start
Expected == SelectSeq([q \in 1..Len(bits) |-> q - 1], LAMBDA p : bits[p + 1] = bit /\ p >= From)

\* the answers so far are the expected positions in order, then None
Refines == \A t \in 1..Len(out) :
    out[t] = IF t <= Len(Expected) THEN Expected[t] ELSE NONE
\* every word read is inside the data (the refill loop and with_pos test the index first)
WordsInRange == cwp <= NWords(bits) + 1 \/ (start # NoStart /\ cwp = start \div WB + 1)
\* the current word never holds bits of another word
WordFits == cw >= 0 /\ cw < Pow2(WB)
=============================================================================
