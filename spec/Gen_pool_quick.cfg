SPECIFICATION Spec
CONSTANTS
  Sharing = "none"
  Depth = 4
  PoolMethods <- GenPoolMethodsQuick
INVARIANT Emit
INVARIANT TypeOK
CHECK_DEADLOCK FALSE
