SPECIFICATION Spec
CONSTANTS
  Depth = 4
  PoolMethods <- GenPoolMethodsQuick
INVARIANT Emit
INVARIANT TypeOK
CHECK_DEADLOCK FALSE
