SPECIFICATION Spec
CONSTANTS
  StartKinds <- AllStarts
  Depth = 4
INVARIANT Emit
INVARIANT Closed
CHECK_DEADLOCK FALSE
