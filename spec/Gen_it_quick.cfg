SPECIFICATION Spec
CONSTANTS
  Lens = {0, 1, 2, 3}
  Extra = 2
INVARIANT Emit
INVARIANT ExactLen
CHECK_DEADLOCK FALSE
