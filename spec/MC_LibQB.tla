------------------------------ MODULE MC_LibQB ------------------------------
(* Constant sets for the bounded checks and the behaviour generator of LibQB *)
EXTENDS LibQB

Sm(v) == IF v = 0 THEN <<0>> ELSE IF v > 0 THEN <<0, v>> ELSE <<1, -v>>
Rep(x, k) == [q \in 1..k |-> x]
F == 16777215

\* ---- tiny constants: exhaustive invariant checking
T_PushVals == {0, 1, 2, 3, 4, 5, 254, 255}
T_ExtArgs == {<<"u8", << >>>>, <<"i8", <<Sm(-1), Sm(-2), Sm(-3), Sm(-4), Sm(-128)>>>>, <<"u16", <<Sm(65535), Sm(6)>>>>,
              <<"i32", <<Sm(-5), Sm(7), Sm(-16777215)>>>>, <<"u64", <<<<0, 1, 0>>, <<0, 63, F>>, <<0, 2, 0, 3>>>>>>,
              <<"i64", <<<<1, 32768, 0, 0>>, <<0, 32767, F, F>>>>>>}

\* ---- real constants (128 symbols per 256-bit line, 256 per 512-bit line): behaviour generation
R_PushVals == {0, 1, 2, 3, 4, 7, 255}
R_ExtArgs == {<<"u8", << >>>>,
              <<"i8", <<Sm(-1), Sm(-2), Sm(-128), Sm(127)>>>>,
              <<"u8", Rep(Sm(2), 127)>>,
              <<"u16", Rep(Sm(65535), 128) \o <<Sm(1)>>>>,
              <<"i16", Rep(Sm(-3), 255)>>,
              <<"u32", Rep(Sm(5), 256) \o <<Sm(6)>>>>,
              <<"i64", <<<<1, 32768, 0, 0>>, <<0, 32767, F, F>>, Sm(-6)>>>>,
              <<"u128", <<<<0, 255, F, F, F, F, F>>, <<0, 65536, 0, 2>>, <<0, 1, 0, 0, 0, 0, 1>>>>>>,
              <<"i128", <<<<1, 128, 0, 0, 0, 0, 0>>, <<1, 1, 0, 0, 0, 7>>>>>>,
              <<"isize", <<Sm(-7), Sm(-8), Sm(9)>>>>}
=============================================================================
