-------------------------------- MODULE BLine --------------------------------
(***************************************************************************)
(* Level 1 design model of one bit `DataLine` (C06, C08): NW words of WB   *)
(* bits (code: 8 x 64).  Transcribed: `rank1_unchecked` (the loop over the *)
(* words with the signed remainder `left`, full mask while left > WB - 1,  *)
(* partial mask (1 << left) - 1 otherwise, stop when left < 0),            *)
(* `select1_unchecked` / `select0_unchecked` (word by word, select inside  *)
(* the word for the remainder), `get_unchecked`, `n_ones`.                 *)
(* TLC checks every line content and every argument against the direct     *)
(* definitions.  This is what RSWide uses inside a block and RSNarrow      *)
(* inside a word.                                                          *)
(***************************************************************************)
EXTENDS Clauses, TLC

CONSTANTS NW, WB,
          FullTest   \* "code": full mask when left > WB - 1 ; "ge": a seeded change (left >= WB - 1)

LINE == NW * WB
VARIABLE bits     \* exactly LINE bits (lines are zero padded)
vars == <<bits>>

RECURSIVE BSeqs(_)
BSeqs(n) == IF n = 0 THEN {<< >>} ELSE {Append(s, b) : s \in BSeqs(n - 1), b \in {0, 1}}
Init == bits \in BSeqs(LINE)
Next == UNCHANGED bits
Spec == Init /\ [][Next]_vars

Word(w) == {b \in 0..(WB - 1) : bits[w * WB + b + 1] = 1}
NotWord(w) == (0..(WB - 1)) \ Word(w)

RECURSIVE RankLoop(_, _, _)
RankLoop(w, left, rank) ==
    IF w >= NW \/ left < 0 THEN rank
    ELSE LET full == IF FullTest = "code" THEN left > WB - 1 ELSE left >= WB - 1
             mask == IF full THEN 0..(WB - 1) ELSE {b \in 0..(WB - 1) : b < left}
         IN  RankLoop(w + 1, left - WB, rank + Cardinality(Word(w) \cap mask))
Rank1(i) == RankLoop(0, i, 0)

Kth(ws, k) == CHOOSE p \in ws : Cardinality({x \in ws : x < p}) = k
RECURSIVE SelLoop(_, _, _, _, _)
SelLoop(neg, w, i, rank, off) ==
    IF w >= NW THEN off
    ELSE LET ws == IF neg THEN NotWord(w) ELSE Word(w)
             kp == Cardinality(ws)
         IN  IF kp > i - rank THEN off + Kth(ws, i - rank)
             ELSE SelLoop(neg, w + 1, i, rank + kp, off + WB)
Select1(i) == SelLoop(FALSE, 0, i, 0, 0)
Select0(i) == SelLoop(TRUE, 0, i, 0, 0)

Refines ==
    /\ \A i \in 0..LINE : Rank1(i) = Rank(bits, 1, i)
    /\ \A k \in 0..(Count(bits, 1) - 1) : Select1(k) = Select(bits, 1, k)
    /\ \A k \in 0..(Count(bits, 0) - 1) : Select0(k) = Select(bits, 0, k)
=============================================================================
