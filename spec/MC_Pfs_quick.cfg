SPECIFICATION Spec
CONSTANTS
  RATE = 2
  MaxN = 7
  FinalSample = "code"
INVARIANT UnwrapSafe
INVARIANT EstimateBounded
INVARIANT EstimateClose
CHECK_DEADLOCK FALSE
