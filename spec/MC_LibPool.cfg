SPECIFICATION Spec
CONSTANTS
  Sharing = "none"
  Depth = 6
  PoolMethods <- AllPoolMethods
VIEW NoHist
INVARIANT TypeOK
INVARIANT NoDeadEnd
INVARIANT Stamped
CHECK_DEADLOCK FALSE
