SPECIFICATION Spec
CONSTANTS
  Depth = 6
  PoolMethods <- AllPoolMethods
VIEW NoHist
INVARIANT TypeOK
INVARIANT NoDeadEnd
INVARIANT Stamped
CHECK_DEADLOCK FALSE
