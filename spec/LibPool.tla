------------------------------ MODULE LibPool ------------------------------
(***************************************************************************)
(* Level 0 pool machine of the bit family with ALIASES (C19, C08, C11):    *)
(* two slots hold values; a conversion either consumes its source          *)
(* (keep = 0) or leaves it alive next to the result (keep = 1), and a      *)
(* growable bit vector in a slot may be mutated while the other slot holds *)
(* a value derived from it.  The abstract content of a slot is the list of *)
(* mutation stamps applied to it (stamp = position in the history), so two *)
(* slots have equal content iff the same mutations reached both.  What the *)
(* machine states: a conversion copies the content at the time of the      *)
(* conversion; afterwards the two values are independent - only Mut(s)     *)
(* changes the content of slot s.  LibConv.tla covers the chains of single *)
(* values; this module adds the histories in which both copies live on.    *)
(* TLC checks the invariants below and enumerates every history up to      *)
(* Depth that has a live alias being mutated (Gen_pool_*.cfg); qwt-drive   *)
(* replays them on real values and every live slot is observed at the end. *)
(***************************************************************************)
EXTENDS Clauses, TLC, Json

CONSTANTS Depth, PoolMethods,
          Sharing   \* "none": qwt as it is (every conversion copies); "shared": sensitivity switch - a value
                    \* and the copy made from it share storage until one of them is converted again

VARIABLES pool, hist
vars == <<pool, hist>>

Slots == {1, 2}
NOKIND == "none"
Empty == [kind |-> NOKIND, content |-> << >>]
Other(s) == 3 - s
Live(s) == pool[s].kind # NOKIND

Init == pool = [s \in Slots |-> IF s = 1 THEN [kind |-> "BVM", content |-> << >>] ELSE Empty] /\ hist = << >>

\* the result goes to the other slot (whatever was there is dropped)
Conv(s, m, keep) ==
    /\ Len(hist) < Depth
    /\ Live(s)
    /\ m \in ConvMethods(pool[s].kind) \cap PoolMethods
    /\ pool' = [t \in Slots |-> IF t = Other(s) THEN [kind |-> ConvKind(m, pool[s].kind), content |-> pool[s].content]
                                 ELSE IF keep = 1 THEN pool[s] ELSE Empty]
    /\ hist' = Append(hist, [a |-> "conv", s |-> s, m |-> m, keep |-> keep])

Mut(s) ==
    /\ Len(hist) < Depth
    /\ pool[s].kind = "BVM"
    /\ pool' = [t \in Slots |-> IF t = s \/ (Sharing = "shared" /\ Live(t) /\ pool[t].content = pool[s].content)
                                 THEN [pool[t] EXCEPT !.content = Append(@, Len(hist) + 1)] ELSE pool[t]]
    /\ hist' = Append(hist, [a |-> "mut", s |-> s, m |-> "mut", keep |-> 1])

Next == \E s \in Slots : Mut(s) \/ \E m \in PoolMethods, keep \in {0, 1} : Conv(s, m, keep)
Spec == Init /\ [][Next]_vars

BitKinds == {"BVM", "BV", "RSN", "RSW", "DA0", "DA1"}
TypeOK == \A s \in Slots : pool[s].kind \in BitKinds \cup {NOKIND}
\* at least one value is always alive, and it can always be copied
NoDeadEnd == \E s \in Slots : Live(s) /\ ConvMethods(pool[s].kind) # {}
\* the stamps of a slot are increasing: content is only ever appended to, never reordered
Stamped == \A s \in Slots : \A i \in 1..Len(pool[s].content) - 1 : pool[s].content[i] < pool[s].content[i + 1]
\* independence of aliases: a step changes the content of a live slot only if it is Mut of that
\* slot or the slot is the destination of a conversion; the source of a conversion is untouched
IsPrefixOf(a, b) == Len(a) <= Len(b) /\ SubSeq(b, 1, Len(a)) = a
Independent ==
    [][\A s \in Slots :
          LET e == hist'[Len(hist')] IN
          (Live(s) /\ pool'[s].kind # NOKIND /\ pool'[s].content # pool[s].content)
              => \/ (e.a = "mut" /\ e.s = s /\ IsPrefixOf(pool[s].content, pool'[s].content))
                 \/ (e.a = "conv" /\ e.s = Other(s) /\ pool'[s].content = pool[Other(s)].content)]_vars
\* a kept source is bit-for-bit what it was
KeptUntouched ==
    [][LET e == hist'[Len(hist')] IN (e.a = "conv" /\ e.keep = 1) => pool'[e.s] = pool[e.s]]_vars
\* only a growable vector is ever mutated (there is no mutator on the frozen kinds)
OnlyBVMGrows ==
    [][\A s \in Slots : (Live(s) /\ hist'[Len(hist')].a = "mut" /\ hist'[Len(hist')].s = s) => pool[s].kind = "BVM"]_vars

NoHist == pool
\* behaviours worth replaying: some step mutates a slot while the other slot is alive
Aliased == \E i \in 1..Len(hist) : hist[i].a = "mut" /\ \E j \in 1..(i - 1) : hist[j].a = "conv" /\ hist[j].keep = 1
Emit == (Len(hist) = Depth /\ Aliased) => PrintT(<<"BEH", ToJson([start |-> "BVM", steps |-> hist])>>)
=============================================================================
