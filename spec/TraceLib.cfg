SPECIFICATION Spec
INVARIANT PoolOk
POSTCONDITION Accepted
CHECK_DEADLOCK FALSE
