SPECIFICATION Spec
CONSTANTS
  Threads = {1, 2, 3}
  B <- T_B
  Scan <- T_Scan
  MemoMode = "lazy_once"
INVARIANT Linear
CHECK_DEADLOCK FALSE
