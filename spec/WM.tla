--------------------------------- MODULE WM ---------------------------------
(***************************************************************************)
(* Level 1 design model of the plain wavelet matrices (C01 for K = 4:      *)
(* QWaveletTree; the WT half of C03 for K = 2: WaveletTree with            *)
(* COMPRESSED = false): number of levels from msb(max), the shift          *)
(* schedule, digit extraction, the stable partition between levels, and    *)
(* get / rank / select with their argument validation, as in the code.     *)
(* Levels are abstract digit sequences answered by Level-0 operators (the  *)
(* rank/select vectors underneath are checked separately in RSQ / RSBin).  *)
(* TLC checks refinement of the Level-0 clause tables for every sequence   *)
(* up to MaxN over 0..MaxSym, every position, symbol 0..MaxSym+2 and       *)
(* occurrence index.  Switches reproduce seeded changes.                   *)
(***************************************************************************)
EXTENDS Clauses, TLC

CONSTANTS K, MaxSym, MaxN,
          LevelsFormula,   \* "code" | "minus_one" (drops the +1 when computing the number of quad levels)
          RankBound,       \* "code": i > n rejected | "strict": i >= n rejected
          SelectValidates  \* TRUE (code) | FALSE (select does not compare the symbol with the maximum)

FR == IF K = 4 THEN 2 ELSE 1
QuadLevelsOf(m) == MaxI(1, (MaxI(1, BitLen(m)) + 1) \div 2)

VARIABLE S
vars == <<S>>

RECURSIVE SeqsOver(_)
SeqsOver(n) == IF n = 0 THEN {<< >>}
               ELSE LET R == SeqsOver(n - 1) IN R \cup {Append(s, a) : s \in {r \in R : Len(r) = n - 1}, a \in 0..MaxSym}

Init == S \in SeqsOver(MaxN)
Next == UNCHANGED S
Spec == Init /\ [][Next]_vars

N == Len(S)
Sigma == IF N = 0 THEN 0 ELSE CHOOSE x \in {S[q] : q \in 1..N} : \A q \in 1..N : S[q] <= x
Msb(v) == IF v = 0 THEN 0 ELSE BitLen(v) - 1
LogSigma == Msb(Sigma) + 1
NLevels == IF N = 0 THEN 0
           ELSE IF K = 4 THEN (IF LevelsFormula = "code" THEN (LogSigma + 1) \div 2 ELSE MaxI(1, LogSigma \div 2))
           ELSE LogSigma

\* digit of symbol v written at level lvl (1-based); shift = FR * (NLevels - lvl)
Digit(v, lvl) == (v \div Pow2(FR * (NLevels - lvl))) % K

StablePart(seq, lvl) ==
    LET RECURSIVE Cat(_)
        Cat(d) == IF d = K THEN << >> ELSE SelectSeq(seq, LAMBDA v : Digit(v, lvl) = d) \o Cat(d + 1)
    IN  Cat(0)

RECURSIVE BuildLevels(_, _)
BuildLevels(seq, lvl) ==
    IF lvl > NLevels THEN << >>
    ELSE <<[q \in 1..Len(seq) |-> Digit(seq[q], lvl)]>> \o BuildLevels(StablePart(seq, lvl), lvl + 1)


OccsSmaller(L, d) == Len(SelectSeq(L, LAMBDA x : x < d))
RankL(L, d, i) == Cardinality({p \in 1..MinI(i, Len(L)) : L[p] = d})
SelectL(L, d, k) == IF k < Len(Positions(L, d)) THEN Positions(L, d)[k + 1] - 1 ELSE NONE

RECURSIVE GetWalk(_, _, _, _)
GetWalk(Levels, lvl, cur, res) ==
    IF lvl > Len(Levels) THEN res
    ELSE LET L == Levels[lvl] d == L[cur + 1]
         IN  GetWalk(Levels, lvl + 1, RankL(L, d, cur) + OccsSmaller(L, d), res * K + d)
DGet(Levels, i) == IF i >= N THEN NONE ELSE GetWalk(Levels, 1, i, 0)

RECURSIVE RankWalk(_, _, _, _, _)
RankWalk(Levels, c, lvl, p, i) ==
    IF lvl > Len(Levels) THEN i - p
    ELSE LET L == Levels[lvl] d == Digit(c, lvl) off == OccsSmaller(L, d)
         IN  RankWalk(Levels, c, lvl + 1, RankL(L, d, p) + off, RankL(L, d, i) + off)
DRank(Levels, c, i) ==
    IF N = 0 THEN NONE
    ELSE IF (IF RankBound = "code" THEN i > N ELSE i >= N) \/ c > Sigma THEN NONE
    ELSE RankWalk(Levels, c, 1, 0, i)

RECURSIVE Down(_, _, _, _)
Down(Levels, c, lvl, b) ==
    IF lvl > Len(Levels) THEN << >>
    ELSE LET L == Levels[lvl] d == Digit(c, lvl) rb == RankL(L, d, b)
         IN  <<<<b, rb>>>> \o Down(Levels, c, lvl + 1, rb + OccsSmaller(L, d))
RECURSIVE Up(_, _, _, _, _)
Up(Levels, c, path, lvl, res) ==
    IF lvl = 0 THEN res
    ELSE LET s == SelectL(Levels[lvl], Digit(c, lvl), path[lvl][2] + res)
         IN  IF s = NONE THEN NONE ELSE Up(Levels, c, path, lvl - 1, s - path[lvl][1])
DSelect(Levels, c, k) ==
    IF N = 0 THEN NONE
    ELSE IF SelectValidates /\ c > Sigma THEN NONE
    ELSE Up(Levels, c, Down(Levels, c, 1, 0), Len(Levels), k)

Sym(v) == IF v = 0 THEN <<0>> ELSE <<0, v>>
Fam == IF K = 4 THEN "QWT" ELSE "WT"

Refines ==
    LET lv == BuildLevels(S, 1)
        sg == Sym(Sigma)
    IN  /\ \A i \in 0..(N + 1) : DGet(lv, i) = (IF i < N THEN S[i + 1] ELSE NONE)
        /\ \A c \in 0..(MaxSym + 2) :
              LET P == Positions(S, c) used == Len(P) > 0
              IN  /\ \A i \in 0..(N + 1) : DRank(lv, c, i) \in TreeRank(Fam, N, sg, Sym(c), used, P, i).exp
                  /\ \A k \in 0..(Len(P) + 1) : DSelect(lv, c, k) \in TreeSelect(Fam, N, sg, Sym(c), used, P, k).exp

\* the number of levels is what C14 assumes: ceil(bitlen(max) / 2) quad levels, bitlen(max) binary levels (at least one)
LevelCount == N > 0 => NLevels = (IF K = 4 THEN QuadLevelsOf(Sigma) ELSE MaxI(1, BitLen(Sigma)))

\* the shift of the digit extraction never reaches the symbol width
ShiftsInRange == \A lvl \in 1..NLevels : FR * (NLevels - lvl) >= 0
=============================================================================
