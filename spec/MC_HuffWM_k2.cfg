SPECIFICATION Spec
CONSTANTS
  K = 2
  MaxLeaves = 6
  MaxDepth = 5
  MaxN = 4
  ScratchSize = "code"
  Finished = "last"
  GrowLoop = "while"
  EarlyExit = TRUE
INVARIANT CodesOk
INVARIANT Refines
INVARIANT LevelData
CHECK_DEADLOCK FALSE
