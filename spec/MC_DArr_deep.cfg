SPECIFICATION Spec
CONSTANTS
  BLOCK = 4
  SUB = 2
  MAXD = 6
  W = 4
  MaxN = 15
  AsFoundSparseCount = FALSE
  DenseTest = "<"
INVARIANT Refines
INVARIANT SubIndexing
INVARIANT OffsetsFit
CHECK_DEADLOCK FALSE
