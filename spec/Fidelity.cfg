SPECIFICATION FSpec
POSTCONDITION Accepted
CHECK_DEADLOCK FALSE
