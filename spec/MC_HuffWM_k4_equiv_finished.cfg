SPECIFICATION Spec
CONSTANTS
  K = 4
  MaxLeaves = 7
  MaxDepth = 3
  MaxN = 3
  ScratchSize = "code"
  Finished = "first"
  GrowLoop = "while"
  EarlyExit = TRUE
INVARIANT CodesOk
INVARIANT Refines
INVARIANT LevelData
CHECK_DEADLOCK FALSE
