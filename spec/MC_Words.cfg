SPECIFICATION Spec
CONSTANTS
  NB = 2
  PrefixShift = "code"
INVARIANT Refines
CHECK_DEADLOCK FALSE
