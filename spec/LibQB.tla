------------------------------- MODULE LibQB -------------------------------
(***************************************************************************)
(* Level 0 state machine of the quad vector builder (C13): one             *)
(* QVectorBuilder under any history of push / extend calls with values of  *)
(* any primitive integer type, followed by build().  The state is the      *)
(* sequence of 2-bit symbols the builder denotes.                          *)
(*                                                                         *)
(* Uses: (1) TLC checks the invariants below on all histories up to Depth  *)
(* over the argument sets of the configuration (MC_LibQB.cfg); (2) with    *)
(* the history variable visible TLC enumerates the behaviours that         *)
(* qwt-drive replays on the real QVectorBuilder (Gen_qb_*.cfg);            *)
(* (3) TraceLib's Mut action advances the abstract value with the same     *)
(* expressions (a % 4, SymMod4) while validating recorded traces.          *)
(* Values are logged as [sign, limbs base 2^24, most significant first].   *)
(***************************************************************************)
EXTENDS Clauses, TLC, Json

CONSTANTS
    Depth,      \* maximal history length
    PushVals,   \* u8 values for push
    ExtArgs     \* set of <<type name, sequence of encoded values>> for extend

VARIABLES syms, count, hist

vars == <<syms, count, hist>>

Ev(m, rec) == [k |-> "mut", m |-> m] @@ rec

Init == syms = << >> /\ count = 0 /\ hist = << >>

CanStep == Len(hist) < Depth

Push(v) ==
    /\ CanStep
    /\ syms' = syms \o <<v % 4>>
    /\ count' = count + 1
    /\ hist' = Append(hist, Ev("qpush", [a |-> <<v>>]))

Extend(arg) ==
    /\ CanStep
    /\ syms' = syms \o [q \in 1..Len(arg[2]) |-> SymMod4(arg[2][q])]
    /\ count' = count + Len(arg[2])
    /\ hist' = Append(hist, Ev("qextend", [ty |-> arg[1], vals |-> arg[2]]))

Next == (\E v \in PushVals : Push(v)) \/ (\E arg \in ExtArgs : Extend(arg))

Spec == Init /\ [][Next]_vars

---------------------------------------------------------------------------
(* Properties (C13) *)

\* len is the number of values; is_empty only for no values
LenInv == Len(syms) = count
EmptyInv == (Len(syms) = 0) <=> (count = 0)

\* every stored symbol is a 2-bit value
QuadInv == \A q \in 1..Len(syms) : syms[q] \in 0..3

\* get(i) is the stored symbol for i < len and None beyond (the clause TraceLib judges get with)
GetInv == \A i \in 0..(Len(syms) + 2) :
    QuadGet(syms, i).exp = (IF i < Len(syms) THEN {syms[i + 1]} ELSE {NONE})

\* the stored symbol is the mathematical value modulo 4 (two's complement low bits):
\* SymMod4 on the limb encoding agrees with the integer it encodes
RECURSIVE LimbVal(_, _)
LimbVal(s, q) == IF q = 1 THEN 0 ELSE LimbVal(s, q - 1) * 16777216 + s[q]
SmallEnough(s) == Len(s) <= 2 \/ (Len(s) = 3 /\ s[2] < 64)
IntOf(s) == IF s[1] = 0 THEN LimbVal(s, Len(s)) ELSE -LimbVal(s, Len(s))
LowBitsInv == \A arg \in ExtArgs : \A q \in 1..Len(arg[2]) :
    SmallEnough(arg[2][q]) => SymMod4(arg[2][q]) = IntOf(arg[2][q]) % 4

\* pushing never disturbs what is already stored
IsPrefixOf(a, b2) == Len(a) <= Len(b2) /\ \A q \in 1..Len(a) : a[q] = b2[q]
AppendOnly == [][IsPrefixOf(syms, syms')]_vars

NoHist == <<syms, count>>

Emit == Len(hist) = Depth => PrintT(<<"BEH", ToJson(hist)>>)
=============================================================================
