SPECIFICATION Spec
CONSTANTS
  Sharing = "none"
  Depth = 5
  PoolMethods <- GenPoolMethods
INVARIANT Emit
INVARIANT TypeOK
CHECK_DEADLOCK FALSE
