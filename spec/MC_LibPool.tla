----------------------------- MODULE MC_LibPool -----------------------------
EXTENDS LibPool
AllPoolMethods == {"clone", "serde", "collect_iter", "into_bv", "into_bvm", "rs_narrow", "rs_narrow_from", "rs_wide", "rs_wide_from", "da0", "da1"}
\* the generator leaves out the *_from twins (same target kind, covered chain-wise by LibConv)
GenPoolMethods == {"clone", "serde", "collect_iter", "into_bv", "into_bvm", "rs_narrow", "rs_wide", "da1"}
GenPoolMethodsQuick == {"clone", "serde", "into_bv", "into_bvm", "rs_narrow", "da1"}
=============================================================================
