------------------------------- MODULE LibBV -------------------------------
(***************************************************************************)
(* Level 0 state machine of the mutable bit vector (C08, and the           *)
(* documented-panic clauses of C04): one BitVectorMut under any history of *)
(* its mutators.  The state is the plain bit sequence the vector denotes   *)
(* plus the counter of ones that the API exposes through count_ones(),     *)
(* maintained incrementally the way the implementation maintains it (this  *)
(* is where the set_bits defect lived: see the AsFound switch).            *)
(*                                                                         *)
(* Uses: (1) TLC checks the invariants below on all histories up to Depth  *)
(* over the argument sets of the configuration (MC_LibBV_*.cfg);           *)
(* (2) with the history variable visible, TLC enumerates the behaviours    *)
(* that harness/qwt-drive replays on the real BitVectorMut (Gen_bv.cfg);   *)
(* (3) TraceLib's Mut action uses the same Mut* operators (Clauses.tla) to *)
(* advance the abstract value while validating recorded traces.            *)
(***************************************************************************)
EXTENDS Clauses, TLC, Json

CONSTANTS
    Depth,        \* maximal history length
    MaxLen,       \* histories are cut when the vector exceeds this length
    PushVals,     \* subset of {0,1}
    AppendArgs,   \* set of <<len, word>> (word = ascending list of set positions)
    ZeroArgs,     \* set of k for extend_with_zeros
    SetPos,       \* set of positions tried by set (only those < len are enabled)
    SetBitsArgs,  \* set of <<index, len, word>>
    BoolArgs,     \* set of bit sequences for Extend<bool>
    PosArgs,      \* set of strictly increasing position lists for Extend<usize> (relative to len - Back)
    Back,         \* positions in PosArgs are offset by Max(0, len - Back)
    AsFoundSetBits, \* TRUE reproduces the counting defect repaired by the "fix:" commit
    PosCount       \* "per_position": the counter grows once per newly set position (code);
                   \* "per_item": once per list item (a seeded change: wrong for repeated positions)

VARIABLES bits, ones, hist

vars == <<bits, ones, hist>>

Pop(w, len) == Cardinality({t \in 1..Len(w) : w[t] < len})
OnesOf(B) == Cardinality({q \in 1..Len(B) : B[q] = 1})
OnesIn(B, i, len) == Cardinality({q \in (i + 1)..(i + len) : B[q] = 1})

Ev(m, rec) == [k |-> "mut", m |-> m] @@ rec

Init == bits = << >> /\ ones = 0 /\ hist = << >>

CanStep == Len(hist) < Depth /\ Len(bits) <= MaxLen

Push(b) ==
    /\ CanStep
    /\ bits' = MutPush(bits, b)
    /\ ones' = ones + b
    /\ hist' = Append(hist, Ev("push", [a |-> <<b>>]))

AppendBits(arg) ==
    /\ CanStep /\ MutAppendBitsOk(arg[2], arg[1])
    /\ bits' = MutAppendBits(bits, arg[2], arg[1])
    /\ ones' = ones + Pop(arg[2], arg[1])
    /\ hist' = Append(hist, Ev("append_bits", [a |-> <<arg[1]>>, w |-> arg[2]]))

ExtendZeros(k) ==
    /\ CanStep
    /\ bits' = MutExtendZeros(bits, k)
    /\ ones' = ones
    /\ hist' = Append(hist, Ev("extend_with_zeros", [a |-> <<k>>]))

Set(i, b) ==
    /\ CanStep /\ MutSetOk(bits, i)
    /\ bits' = MutSet(bits, i, b)
    /\ ones' = ones + (IF b = 1 /\ bits[i + 1] = 0 THEN 1 ELSE 0) - (IF b = 0 /\ bits[i + 1] = 1 THEN 1 ELSE 0)
    /\ hist' = Append(hist, Ev("set", [a |-> <<i, b>>]))

SetBits(arg) ==
    /\ CanStep /\ MutSetBitsOk(bits, arg[1], arg[2], arg[3])
    /\ bits' = MutSetBits(bits, arg[1], arg[2], arg[3])
    /\ ones' = IF AsFoundSetBits THEN ones + Pop(arg[3], arg[2])
               ELSE ones - OnesIn(bits, arg[1], arg[2]) + Pop(arg[3], arg[2])
    /\ hist' = Append(hist, Ev("set_bits", [a |-> <<arg[1], arg[2]>>, w |-> arg[3]]))

ExtendBools(bs) ==
    /\ CanStep
    /\ bits' = bits \o bs
    /\ ones' = ones + OnesOf(bs)
    /\ hist' = Append(hist, Ev("extend_bools", [bits |-> bs]))

\* Extend<usize>: each position zero-extends the vector if needed, then sets the bit; the list
\* may repeat positions and come in any order
ExtendPositions(rel) ==
    LET off == MaxI(0, Len(bits) - Back)
        ps == [t \in 1..Len(rel) |-> rel[t] + off]
        B2 == MutExtendPositions(bits, ps)
        fresh(p) == p >= Len(bits) \/ bits[p + 1] = 0
    IN  /\ CanStep /\ PositionsDefined(ps)
        /\ bits' = B2
        /\ ones' = ones + (IF PosCount = "per_position"
                           THEN Cardinality({p \in {ps[t] : t \in 1..Len(ps)} : fresh(p)})
                           ELSE Cardinality({t \in 1..Len(ps) : fresh(ps[t])}))
        /\ hist' = Append(hist, Ev("extend_positions", [pos |-> ps]))

Next ==
    \/ \E b \in PushVals : Push(b)
    \/ \E arg \in AppendArgs : AppendBits(arg)
    \/ \E k \in ZeroArgs : ExtendZeros(k)
    \/ \E i \in SetPos, b \in {0, 1} : Set(i, b)
    \/ \E arg \in SetBitsArgs : SetBits(arg)
    \/ \E bs \in BoolArgs : ExtendBools(bs)
    \/ \E rel \in PosArgs : ExtendPositions(rel)

Spec == Init /\ [][Next]_vars

---------------------------------------------------------------------------
(* Properties (C08) *)

\* count_ones()/count_zeros() are those of the plain sequence
CountInv == ones = OnesOf(bits)

\* every multi-bit read and word read is that of the plain sequence; a read that
\* ends exactly at the last bit is answered
ReadInv ==
    \A i \in 0..Len(bits) : \A len \in {1, 2, 3} :
        i + len <= Len(bits) =>
            LET cl == BitGetBits(bits, i, len)
            IN  cl.exp = {BitsAt(bits, i, len)} /\ cl.tag \in {"get_bits.gen", "get_bits.end_inclusive"}

\* appending never disturbs what is already stored
IsPrefixOf(a, b2) == Len(a) <= Len(b2) /\ \A q \in 1..Len(a) : a[q] = b2[q]
AppendOnly ==
    [][(\E b \in PushVals : Push(b)) \/ (\E arg \in AppendArgs : AppendBits(arg))
       \/ (\E k \in ZeroArgs : ExtendZeros(k)) \/ (\E bs \in BoolArgs : ExtendBools(bs))
       => IsPrefixOf(bits, bits')]_vars

\* set / set_bits change exactly the addressed bits and never the length
SetLocal ==
    [][\A i \in SetPos, b \in {0, 1} : Set(i, b) =>
          /\ Len(bits') = Len(bits)
          /\ \A q \in 1..Len(bits) : q # i + 1 => bits'[q] = bits[q]]_vars
SetBitsRoundTrip ==
    [][\A arg \in SetBitsArgs : SetBits(arg) /\ arg[2] > 0 =>
          /\ Len(bits') = Len(bits)
          /\ BitsAt(bits', arg[1], arg[2]) = SelectSeq(arg[3], LAMBDA x : x < arg[2])
          /\ \A q \in 1..Len(bits) : (q <= arg[1] \/ q > arg[1] + arg[2]) => bits'[q] = bits[q]]_vars

\* positions only ever set bits and zero-extend
ExtendPositionsMonotone ==
    [][\A rel \in PosArgs : ExtendPositions(rel) =>
          /\ Len(bits') >= Len(bits)
          /\ \A q \in 1..Len(bits) : bits[q] = 1 => bits'[q] = 1]_vars

\* state projection for the invariant-checking configurations: histories are not part of the state
NoHist == <<bits, ones>>

\* behaviour generation: one line per maximal history
Emit == (Len(hist) = Depth \/ Len(bits) > MaxLen) => PrintT(<<"BEH", ToJson(hist)>>)

=============================================================================
