SPECIFICATION Spec
CONSTANTS
  K = 2
  MaxSym = 9
  MaxN = 4
  LevelsFormula = "code"
  RankBound = "code"
  SelectValidates = TRUE
INVARIANT Refines
INVARIANT LevelCount
INVARIANT ShiftsInRange
CHECK_DEADLOCK FALSE
