SPECIFICATION Spec
CONSTANTS
  Threads = {1, 2, 3}
  B <- T_B
  Scan <- T_Scan
  MemoMode = "atomic_pair"
INVARIANT Linear
INVARIANT Pure
CHECK_DEADLOCK FALSE
