-------------------------------- MODULE QLine --------------------------------
(***************************************************************************)
(* Level 1 design model of one quad `DataLine` (C05, C13): 2*WB symbols    *)
(* stored as two bit planes (high bits in words 0..1, low bits in words    *)
(* 2..3, WB bits per word; code: WB = 128).  Transcribed: `set_symbol`,    *)
(* `get_unchecked` (word index i >> 7, low word = high + 2), `normalize`   *)
(* (XOR with the repeated-symbol masks, AND of the planes) and             *)
(* `rank_unchecked` with its mask selection by `last_word`, including the  *)
(* i = WB, i = 2*WB corner cases, and the intra-block select used by       *)
(* RSQVector (two words per line, one or two lines per block).             *)
(* TLC checks every line content, every symbol and every position.         *)
(***************************************************************************)
EXTENDS Clauses, TLC

CONSTANTS WB,          \* bits per word (code: 128)
          FullMaskCase \* "code": the second word is fully counted when last_word = 2 ; "never": a seeded change

LINE == 2 * WB

VARIABLE q     \* the symbols of the line, a sequence over 0..3 of length <= LINE
vars == <<q>>

RECURSIVE QSeqs(_)
QSeqs(n) == IF n = 0 THEN {<< >>} ELSE LET R == QSeqs(n - 1) IN R \cup {Append(s, c) : s \in {r \in R : Len(r) = n - 1}, c \in 0..3}
Init == q \in QSeqs(LINE)
Next == UNCHANGED q
Spec == Init /\ [][Next]_vars

\* the four words as sets of bit positions, built by set_symbol in push order (positions beyond Len(q) stay 0)
HiBit(p) == IF p < Len(q) THEN q[p + 1] \div 2 ELSE 0
LoBit(p) == IF p < Len(q) THEN q[p + 1] % 2 ELSE 0
Word(w) == {b \in 0..(WB - 1) : IF w < 2 THEN HiBit(w * WB + b) = 1 ELSE LoBit((w - 2) * WB + b) = 1}

Get(i) == LET wh == i \div WB sh == i % WB
          IN  2 * (IF sh \in Word(wh) THEN 1 ELSE 0) + (IF sh \in Word(wh + 2) THEN 1 ELSE 0)

\* normalize(symbol): bit set where the stored symbol equals `symbol` (XOR with !bit repeated, then AND)
AllBits == 0..(WB - 1)
Xor(word, maskAll) == IF maskAll THEN AllBits \ word ELSE word
Norm(symbol, half) ==
    LET mh == (symbol \div 2) = 0     \* REPEATEDSYMB[0] = all ones
        ml == (symbol % 2) = 0
    IN  Xor(Word(half), mh) \cap Xor(Word(half + 2), ml)

RankLine(symbol, i) ==
    LET w0 == Norm(symbol, 0) w1 == Norm(symbol, 1)
        last == i \div WB off == i % WB
        below == {b \in AllBits : b < off}
        m0 == IF last = 0 THEN below ELSE AllBits
        m1 == IF last = 1 THEN below ELSE IF last = 2 /\ FullMaskCase = "code" THEN AllBits ELSE {}
    IN  Cardinality(w0 \cap m0) + Cardinality(w1 \cap m1)

\* select inside the line: the k-th (0-based) occurrence, word by word as select_intra_block does
SelectLine(symbol, k) ==
    LET w0 == Norm(symbol, 0) w1 == Norm(symbol, 1)
        Kth(w, kk) == CHOOSE p \in w : Cardinality({x \in w : x < p}) = kk
    IN  IF Cardinality(w0) > k THEN Kth(w0, k)
        ELSE IF Cardinality(w1) > k - Cardinality(w0) THEN WB + Kth(w1, k - Cardinality(w0))
        ELSE NONE

\* padding positions of a partially filled line hold symbol 0 in both planes: rank of a symbol other than 0
\* never counts them, and rank of 0 is only asked up to the vector's length
Refines ==
    /\ \A i \in 0..(Len(q) - 1) : Get(i) = q[i + 1]
    /\ \A s \in 0..3 : \A i \in 0..Len(q) : RankLine(s, i) = Rank(q, s, i)
    /\ \A s \in 0..3 : \A k \in 0..(Count(q, s) - 1) : SelectLine(s, k) = Select(q, s, k)
=============================================================================
