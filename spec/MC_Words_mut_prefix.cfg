SPECIFICATION Spec
CONSTANTS
  NB = 2
  PrefixShift = "noshift"
INVARIANT Refines
CHECK_DEADLOCK FALSE
