SPECIFICATION Spec
CONSTANTS
  K = 4
  MaxSym = 5
  MaxN = 5
  LevelsFormula = "code"
  RankBound = "code"
  SelectValidates = TRUE
INVARIANT Refines
INVARIANT LevelCount
INVARIANT ShiftsInRange
CHECK_DEADLOCK FALSE
