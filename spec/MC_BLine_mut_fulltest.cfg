SPECIFICATION Spec
CONSTANTS
  NW = 4
  WB = 3
  FullTest = "ge"
INVARIANT Refines
CHECK_DEADLOCK FALSE
