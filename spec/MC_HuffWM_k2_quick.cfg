SPECIFICATION Spec
CONSTANTS
  K = 2
  MaxLeaves = 6
  MaxDepth = 5
  MaxN = 3
  ScratchSize = "code"
INVARIANT CodesOk
INVARIANT Refines
INVARIANT LevelData
CHECK_DEADLOCK FALSE
