----------------------------- MODULE LibItProof -----------------------------
(***************************************************************************)
(* TLAPS proof that the iterator machine of LibIt.tla (index abstraction   *)
(* of spec/apalache/LibItInd.tla) keeps its inductive invariant for EVERY  *)
(* sequence length, and that the invariant implies what C12 states:        *)
(* len() is the number of elements not yet consumed, nothing is yielded    *)
(* twice, and None is only returned when everything has been consumed -    *)
(* under next, next_back, len and the skipping calls nth(k), nth_back(k)   *)
(* for every k.                                                            *)
(*   tlapm --threads 8 LibItProof.tla                                      *)
(***************************************************************************)
EXTENDS Integers, TLAPS

VARIABLES n, f, b, yf, yb
vars == <<n, f, b, yf, yb>>

Init == n \in Nat /\ f = 0 /\ b = n /\ yf = 0 /\ yb = 0

CallNext ==
    /\ IF f < b THEN f' = f + 1 /\ yf' = yf + 1 ELSE f' = f /\ yf' = yf
    /\ UNCHANGED <<n, b, yb>>
CallNextBack ==
    /\ IF f < b THEN b' = b - 1 /\ yb' = yb + 1 ELSE b' = b /\ yb' = yb
    /\ UNCHANGED <<n, f, yf>>
CallLen == UNCHANGED vars
\* nth(k) / nth_back(k) as TraceLib judges them (Clauses!ItNth, ItNthBack): k elements are
\* skipped and one is yielded, or the iterator becomes exhausted; yf / yb count consumed elements
CallNth(k) ==
    /\ IF f + k < b THEN f' = f + k + 1 /\ yf' = yf + k + 1 ELSE f' = b /\ yf' = yf + (b - f)
    /\ UNCHANGED <<n, b, yb>>
CallNthBack(k) ==
    /\ IF f + k < b THEN b' = b - k - 1 /\ yb' = yb + k + 1 ELSE b' = f /\ yb' = yb + (b - f)
    /\ UNCHANGED <<n, f, yf>>
Next == CallNext \/ CallNextBack \/ CallLen \/ (\E k \in Nat : CallNth(k)) \/ (\E k \in Nat : CallNthBack(k))
Spec == Init /\ [][Next]_vars

IndInv == /\ n \in Nat /\ f \in Nat /\ b \in Nat /\ yf \in Nat /\ yb \in Nat
          /\ f <= b /\ b <= n
          /\ yf = f /\ yb = n - b

Safety == /\ b - f = n - yf - yb
          /\ yf + yb <= n
          /\ (f = b => yf + yb = n)

THEOREM InitInv == Init => IndInv
  BY DEF Init, IndInv

THEOREM NextInv == IndInv /\ [Next]_vars => IndInv'
  <1> SUFFICES ASSUME IndInv, [Next]_vars PROVE IndInv'
    OBVIOUS
  <1>1. CASE CallNext
    BY <1>1 DEF IndInv, CallNext
  <1>2. CASE CallNextBack
    BY <1>2 DEF IndInv, CallNextBack
  <1>3. CASE CallLen
    BY <1>3 DEF IndInv, CallLen, vars
  <1>4. CASE UNCHANGED vars
    BY <1>4 DEF IndInv, vars
  <1>5. CASE \E k \in Nat : CallNth(k)
    <2> PICK k \in Nat : CallNth(k)
      BY <1>5
    <2> QED
      BY DEF IndInv, CallNth
  <1>6. CASE \E k \in Nat : CallNthBack(k)
    <2> PICK k \in Nat : CallNthBack(k)
      BY <1>6
    <2> QED
      BY DEF IndInv, CallNthBack
  <1> QED
    BY <1>1, <1>2, <1>3, <1>4, <1>5, <1>6 DEF Next

THEOREM InvSafety == IndInv => Safety
  BY DEF IndInv, Safety

THEOREM Spec => []Safety
  <1>1. Spec => []IndInv
    BY InitInv, NextInv, PTL DEF Spec
  <1> QED
    BY <1>1, InvSafety, PTL
=============================================================================
