----------------------------- MODULE LibItProof -----------------------------
(***************************************************************************)
(* TLAPS proof that the iterator machine of LibIt.tla (index abstraction   *)
(* of spec/apalache/LibItInd.tla) keeps its inductive invariant for EVERY  *)
(* sequence length, and that the invariant implies what C12 states:        *)
(* len() is the number of elements not yet yielded, nothing is yielded     *)
(* twice, and None is only returned when everything has been yielded.      *)
(*   tlapm --threads 8 LibItProof.tla                                      *)
(***************************************************************************)
EXTENDS Integers, TLAPS

VARIABLES n, f, b, yf, yb
vars == <<n, f, b, yf, yb>>

Init == n \in Nat /\ f = 0 /\ b = n /\ yf = 0 /\ yb = 0

CallNext ==
    /\ IF f < b THEN f' = f + 1 /\ yf' = yf + 1 ELSE f' = f /\ yf' = yf
    /\ UNCHANGED <<n, b, yb>>
CallNextBack ==
    /\ IF f < b THEN b' = b - 1 /\ yb' = yb + 1 ELSE b' = b /\ yb' = yb
    /\ UNCHANGED <<n, f, yf>>
CallLen == UNCHANGED vars
Next == CallNext \/ CallNextBack \/ CallLen
Spec == Init /\ [][Next]_vars

IndInv == /\ n \in Nat /\ f \in Nat /\ b \in Nat /\ yf \in Nat /\ yb \in Nat
          /\ f <= b /\ b <= n
          /\ yf = f /\ yb = n - b

Safety == /\ b - f = n - yf - yb
          /\ yf + yb <= n
          /\ (f = b => yf + yb = n)

THEOREM InitInv == Init => IndInv
  BY DEF Init, IndInv

THEOREM NextInv == IndInv /\ [Next]_vars => IndInv'
  <1> SUFFICES ASSUME IndInv, [Next]_vars PROVE IndInv'
    OBVIOUS
  <1>1. CASE CallNext
    BY <1>1 DEF IndInv, CallNext
  <1>2. CASE CallNextBack
    BY <1>2 DEF IndInv, CallNextBack
  <1>3. CASE CallLen
    BY <1>3 DEF IndInv, CallLen, vars
  <1>4. CASE UNCHANGED vars
    BY <1>4 DEF IndInv, vars
  <1> QED
    BY <1>1, <1>2, <1>3, <1>4 DEF Next

THEOREM InvSafety == IndInv => Safety
  BY DEF IndInv, Safety

THEOREM Spec => []Safety
  <1>1. Spec => []IndInv
    BY InitInv, NextInv, PTL DEF Spec
  <1> QED
    BY <1>1, InvSafety, PTL
=============================================================================
