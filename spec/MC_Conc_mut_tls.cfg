SPECIFICATION Spec
CONSTANTS
  Threads = {1}
  B <- T_B
  Scan <- T_Scan2
  MemoMode = "tls_scratch"
INVARIANT Linear
CHECK_DEADLOCK FALSE
