SPECIFICATION Spec
CONSTANTS
  Lens = {0, 1, 2, 3, 4, 5, 6, 7, 8}
  Extra = 4
INVARIANT FrontInOrder
INVARIANT BackInReverse
INVARIANT OnceOnly
INVARIANT ExactLen
INVARIANT ExhaustedNone
INVARIANT CompleteBeforeNone
INVARIANT NthIsRepeatedNext
PROPERTY ExhaustedForever
CHECK_DEADLOCK FALSE
