-------------------------------- MODULE RSQ --------------------------------
(***************************************************************************)
(* Level 1 design model of the rank/select quad vector (C05, and the       *)
(* index-safety part of C04): `RSSupportPlain::new`, `rank_block`,         *)
(* `select_block` (square-root step search over superblocks, linear        *)
(* search, `block_predecessor`), and `RSQVector::{rank, select, occs,      *)
(* occs_smaller}`, with the control structure of the code and parametric   *)
(* constants:                                                              *)
(*     LINE   symbols per data line             (code: 256)                *)
(*     BS     symbols per block, LINE or 2*LINE (code: 256 | 512)          *)
(*     BPS    blocks per superblock, power of 2 (code: 8)                  *)
(*     SAMPLE occurrences per select sample     (code: 8192)               *)
(* TLC checks for every quaternary sequence up to MaxN symbols and every   *)
(* argument: refinement of the Level-0 clauses, every array index in       *)
(* range, no unsigned subtraction below zero.                              *)
(* Switches reproduce seeded changes (a dropped sentinel, a wrong sample   *)
(* slot, a strict block predecessor test): each must make a check fail.    *)
(***************************************************************************)
EXTENDS Clauses, TLC

CONSTANTS LINE, BS, BPS, SAMPLE, MaxN,
          SentinelGuard,   \* "code": next_block_id < BPS ; "dropped": next_block_id < BPS - 1
          SampleSlot,      \* "code": (i-1) div SAMPLE ; "off": i div SAMPLE
          PredTest         \* "code": curr >= target ; "strict": curr > target

VARIABLE Q
vars == <<Q>>

RECURSIVE QSeqsUpTo(_)
QSeqsUpTo(n) == IF n = 0 THEN {<< >>}
                ELSE LET R == QSeqsUpTo(n - 1) IN R \cup {Append(s, c) : s \in {r \in R : Len(r) = n - 1}, c \in 0..3}

Init == Q \in QSeqsUpTo(MaxN)
Next == UNCHANGED Q
Spec == Init /\ [][Next]_vars

N == Len(Q)
SBS == BS * BPS
OOB == -99
UNDER == -98

Zero4 == <<0, 0, 0, 0>>
Inc(c4, s) == [c4 EXCEPT ![s + 1] = @ + 1]

---------------------------------------------------------------------------
(* RSSupportPlain::new as a loop over i = 0..N; state of the loop:         *)
(*   sbs: sequence of [sb, blk]; sbc/bc/occ: counters; smp: samples        *)

NewSb(sbc) == [sb |-> sbc, blk |-> [j \in 1..(BPS - 1) |-> Zero4]]
\* set_block_counters ORs into zero-initialised fields
SetBlk(sbs, bid, bc) ==
    IF bid = 0 THEN sbs
    ELSE [sbs EXCEPT ![Len(sbs)].blk[bid] = [s \in 1..4 |-> IF @[s] = 0 THEN bc[s] ELSE MaxI(@[s], bc[s])]]

\* one iteration of the loop `for i in 0..qv.len() + 1`
BuildStep(st0, i) ==
    LET sbs1 == IF i % SBS = 0 THEN Append(st0.sbs, NewSb(st0.sbc)) ELSE st0.sbs
        bc1 == IF i % SBS = 0 THEN Zero4 ELSE st0.bc
        sbs2 == IF i % BS = 0 THEN SetBlk(sbs1, (i \div BS) % BPS, bc1) ELSE sbs1
    IN  IF i < N
        THEN LET s == Q[i + 1]
             IN  [sbs |-> sbs2, sbc |-> Inc(st0.sbc, s), bc |-> Inc(bc1, s), occ |-> Inc(st0.occ, s),
                  smp |-> IF st0.occ[s + 1] % SAMPLE = 0
                          THEN [st0.smp EXCEPT ![s + 1] = Append(@, i \div SBS)] ELSE st0.smp]
        ELSE [sbs |-> sbs2, sbc |-> st0.sbc, bc |-> bc1, occ |-> st0.occ, smp |-> st0.smp]

\* the whole loop, i = 0 .. n (a left fold, so that long inputs need no deep recursion)
Build(n) ==
    SX!FoldLeft(BuildStep,
                [sbs |-> << >>, sbc |-> Zero4, bc |-> Zero4, occ |-> Zero4, smp |-> [s \in 1..4 |-> << >>]],
                [i \in 1..(n + 1) |-> i - 1])

Support ==
    LET b == Build(N)
        nb == ((N \div BS) % BPS) + 1
        guard == IF SentinelGuard = "code" THEN nb < BPS ELSE nb < BPS - 1
        sbs == IF guard THEN SetBlk(b.sbs, nb, b.bc) ELSE b.sbs
        smp == [s \in 1..4 |-> (IF Len(b.smp[s]) = 0 THEN <<0>> ELSE b.smp[s]) \o <<Len(sbs) - 1>>]
    IN  [sbs |-> sbs, smp |-> smp, occ |-> b.occ]

---------------------------------------------------------------------------
(* Queries *)

NLines == (N + LINE - 1) \div LINE

RankBlock(sup, s, i) ==
    LET sbi == i \div SBS
        bi == (i \div BS) % BPS
    IN  IF sbi + 1 \notin DOMAIN sup.sbs THEN OOB
        ELSE sup.sbs[sbi + 1].sb[s + 1] + (IF bi > 0 THEN sup.sbs[sbi + 1].blk[bi][s + 1] ELSE 0)

\* rank_intra_block reads lines through `get`, so a missing line counts as empty
RankIntra(s, i) == Cardinality({p \in ((i \div BS) * BS + 1)..MinI(i, N) : Q[p] = s})

DRank(sup, s, i) ==
    IF s > 3 \/ i > N THEN NONE
    ELSE LET rb == RankBlock(sup, s, i) IN IF rb = OOB THEN OOB ELSE rb + RankIntra(s, i)

Sqrt(x) == CHOOSE r \in 0..x : r * r <= x /\ (r + 1) * (r + 1) > x

Cnt(sup, sb, s) == sup.sbs[sb + 1].sb[s + 1]

RECURSIVE StepSearch(_, _, _, _, _, _)
StepSearch(sup, s, i, first, last, step) ==
    IF first < last /\ first + 1 \in DOMAIN sup.sbs /\ Cnt(sup, first, s) < i
    THEN StepSearch(sup, s, i, first + step, last, step) ELSE first

BlockPred(sup, sb, s, target) ==
    LET blk == sup.sbs[sb + 1].blk
        hit == {b \in 1..(BPS - 1) : IF PredTest = "code" THEN blk[b][s + 1] >= target ELSE blk[b][s + 1] > target}
        b0 == IF hit = {} THEN BPS ELSE CHOOSE b \in hit : \A c \in hit : b <= c
    IN  <<b0 - 1, IF b0 - 1 = 0 THEN 0 ELSE blk[b0 - 1][s + 1]>>

\* select_block: i is the 1-based occurrence number; returns <<position, rank>> or an error code
SelectBlock(sup, s, i) ==
    LET slot == IF SampleSlot = "code" THEN (i - 1) \div SAMPLE ELSE i \div SAMPLE
        smp == sup.smp[s + 1]
    IN  IF slot + 2 \notin DOMAIN smp THEN <<OOB, 0>>
        ELSE LET first0 == smp[slot + 1]
                 last == 1 + smp[slot + 2]
                 step == Sqrt(last - first0) + 1
                 f1 == StepSearch(sup, s, i, first0, last, step)
             IN  IF f1 < last /\ f1 + 1 \notin DOMAIN sup.sbs THEN <<OOB, 0>>
                 ELSE IF f1 < step THEN <<UNDER, 0>>
                 ELSE LET f2 == StepSearch(sup, s, i, f1 - step, last, 1)
                      IN  IF f2 < last /\ f2 + 1 \notin DOMAIN sup.sbs THEN <<OOB, 0>>
                          ELSE IF f2 < 1 THEN <<UNDER, 0>>
                          ELSE LET sb == f2 - 1
                                   rk == Cnt(sup, sb, s)
                                   bp == BlockPred(sup, sb, s, i - rk)
                               IN  <<sb * SBS + bp[1] * BS, rk + bp[2]>>

\* select_intra_block: the k-th (1-based) occurrence at or after pos, looking at
\* BS / LINE lines through get_unchecked
SelectIntra(s, k, pos) ==
    LET lid == pos \div LINE
        nl == BS \div LINE
        occ == {p \in (pos + 1)..MinI(pos + BS, N) : Q[p] = s}
    IN  IF k < 1 THEN UNDER
        ELSE IF Cardinality(occ) >= k
        THEN LET p == CHOOSE p \in occ : Cardinality({x \in occ : x <= p}) = k
                 \* lines touched before the hit
                 lastline == (p - 1) \div LINE
             IN  IF lastline >= NLines THEN OOB ELSE p - 1 - pos
        ELSE IF lid + nl - 1 >= NLines THEN OOB ELSE 0

DSelect(sup, s, k) ==
    IF s > 3 \/ sup.occ[s + 1] <= k THEN NONE
    ELSE LET sb == SelectBlock(sup, s, k + 1)
         IN  IF sb[1] < 0 THEN sb[1]
             ELSE LET ia == SelectIntra(s, k - sb[2] + 1, sb[1])
                  IN  IF ia < 0 THEN ia ELSE sb[1] + ia

---------------------------------------------------------------------------
(* Properties *)

Refines ==
    LET sup == Support
    IN  \A s \in 0..4 :
          LET P == IF s > 3 THEN << >> ELSE Positions(Q, s)
          IN  /\ \A i \in 0..(N + 1) : DRank(sup, s, i) \in QuadRank(Q, s, P, i).exp
              /\ \A k \in 0..(Len(P) + 1) : DSelect(sup, s, k) \in QuadSelect(Q, s, P, k).exp
              /\ s <= 3 => sup.occ[s + 1] \in QuadOccs(Q, s, P).exp

\* superblock counters are prefix counts; block counters are counts inside the superblock
CountersExact ==
    LET sup == Support
    IN  \A sb \in 1..Len(sup.sbs) : \A s \in 0..3 :
          /\ sup.sbs[sb].sb[s + 1] = Cardinality({p \in 1..MinI((sb - 1) * SBS, N) : Q[p] = s})

\* sample k of symbol s is the superblock holding occurrence k*SAMPLE + 1; the list ends with the sentinel
SamplesExact ==
    LET sup == Support
    IN  \A s \in 0..3 :
          LET P == Positions(Q, s) smp == sup.smp[s + 1]
          IN  /\ smp[Len(smp)] = Len(sup.sbs) - 1
              /\ \A k \in 0..((Len(P) - 1) \div SAMPLE) :
                    Len(P) > 0 => smp[k + 1] = (P[k * SAMPLE + 1] - 1) \div SBS

NSuperblocks == Len(Support.sbs) = (N + SBS) \div SBS
=============================================================================
