------------------------------ MODULE Fidelity ------------------------------
(***************************************************************************)
(* Model-fidelity report: binds the Level 1 design models to the code.     *)
(* The harness dumps the private index tables of real structures (through  *)
(* their serde::Serialize implementations: `internals` events); here the   *)
(* Level 1 modules are instantiated AT THE REAL CONSTANTS (256/512, 8,     *)
(* 8192, 1024, 32, 65536, 64 ...) on the same input and every table is     *)
(* recomputed and compared:                                                *)
(*   RSQ     superblock counters, block counters, select samples           *)
(*   RSBin   block ranks, packed sub-ranks, select hints (narrow and wide) *)
(*   DArr    block / sub-block inventories, overflow positions             *)
(*   HuffWM  the codes produced by craft_wm_codes for the recorded symbol  *)
(*           order, and the per-level lengths `lens`                       *)
(*   WM      the number of levels                                          *)
(* The outcome is a report (FIDELITY lines), never a verdict: a legitimate *)
(* refactoring may change a layout.  An agreement means that the           *)
(* exhaustive Level 1 results speak about the code as it is; a             *)
(* disagreement says which module to update.                               *)
(***************************************************************************)
EXTENDS TraceLib

\* 12-bit limbs, least significant first, of a {"w": ...} object
Limb(x, i) == IF i + 1 \in DOMAIN x.w THEN x.w[i + 1] ELSE 0
WVal(x) == LET F[j \in 0..Len(x.w)] == IF j = 0 THEN 0 ELSE F[j - 1] + x.w[j] * Pow2(12 * (j - 1)) IN F[Len(x.w)]
SVal(x) == IF x.neg = 1 THEN -WVal(x) ELSE WVal(x)
WBit(x, i) == (Limb(x, i \div 12) \div Pow2(i % 12)) % 2
WField(x, lo, width) == LET F[t \in 0..width] == IF t = 0 THEN 0 ELSE F[t - 1] + WBit(x, lo + t - 1) * Pow2(t - 1) IN F[width]
WSeq(xs) == [t \in 1..Len(xs) |-> WVal(xs[t])]

RQ(bs, q) == INSTANCE RSQ WITH LINE <- 256, BS <- bs, BPS <- 8, SAMPLE <- 8192, MaxN <- 0,
                               SentinelGuard <- "code", SampleSlot <- "code", PredTest <- "code", Q <- q
RB(variant, b) == INSTANCE RSBin WITH Variant <- variant, SUBBITS <- (IF variant = "narrow" THEN 64 ELSE 512), SPB <- 8, LINE <- 512,
                                      HINT <- (IF variant = "narrow" THEN 1024 ELSE 8192), FW <- (IF variant = "narrow" THEN 9 ELSE 12),
                                      MaxN <- 0, HintTiming <- "code", B <- b
DA(b) == INSTANCE DArr WITH BLOCK <- 1024, SUB <- 32, MAXD <- 65536, W <- 64, MaxN <- 0, AsFoundSparseCount <- FALSE, DenseTest <- "<", B <- b
HW(k, p, sq) == INSTANCE HuffWM WITH K <- k, MaxLeaves <- 0, MaxDepth <- 0, MaxN <- 0, ScratchSize <- "code", Finished <- "last", EarlyExit <- TRUE, GrowLoop <- "while", prof <- p, S <- sq

Rep(ln, kind, table, ok) == PrintT(<<"FIDELITY", ToJson([ln |-> Rec[ln].ln, kind |-> kind, table |-> table, in_sync |-> ok])>>)

FidRSQ(ln, L, kind) ==
    LET e == Rec[ln]
        q == Val[L]
        bs == IF kind = "RSQ256" THEN 256 ELSE 512
        sup == RQ(bs, q)!Support
        act == e.val.rs_support
        nsb == Len(act.superblocks)
    IN  /\ Rep(ln, kind, "RSQ.select_samples", \A s \in 1..4 : act.select_samples[s] = sup.smp[s])
        /\ Rep(ln, kind, "RSQ.superblock_counters",
               /\ nsb = Len(sup.sbs)
               /\ \A k \in 1..MinI(nsb, Len(sup.sbs)) : \A s \in 1..4 :
                     WField(act.superblocks[k].counters[s], 84, 30) = sup.sbs[k].sb[s])
        /\ Rep(ln, kind, "RSQ.block_counters",
               \A k \in 1..MinI(nsb, Len(sup.sbs)) : \A s \in 1..4 : \A b \in 1..7 :
                     Limb(act.superblocks[k].counters[s], b - 1) = sup.sbs[k].blk[b][s])

FidBin(ln, L, kind, variant) ==
    LET e == Rec[ln]
        b == Val[L]
        ix == RB(variant, b)!Index
        nb == RB(variant, b)!NB
    IN  /\ Rep(ln, kind, "RSBin." \o variant \o ".hints",
               WSeq(e.val.select_samples[2]) = ix.h1 /\ WSeq(e.val.select_samples[1]) = ix.h0)
        /\ IF variant = "narrow"
           THEN LET pairs == e.val.block_rank_pairs
                    nblk == Len(pairs) \div 2
                IN  /\ Rep(ln, kind, "RSBin.narrow.block_ranks", nblk = Len(ix.R) /\ \A k \in 1..MinI(nblk, Len(ix.R)) : WVal(pairs[2 * k - 1]) = ix.R[k])
                    /\ Rep(ln, kind, "RSBin.narrow.sub_ranks",
                           \A k \in 1..MinI(nblk, nb) : \A j \in 1..7 : WField(pairs[2 * k], (7 - j) * 9, 9) = RB(variant, b)!SubRank(k - 1, j))
           ELSE LET meta == e.val.superblock_metadata
                IN  /\ Rep(ln, kind, "RSBin.wide.superblock_ranks", Len(meta) = Len(ix.R) /\ \A k \in 1..MinI(Len(meta), Len(ix.R)) : WField(meta[k], 84, 30) = ix.R[k])
                    /\ Rep(ln, kind, "RSBin.wide.sub_ranks",
                           \A k \in 1..MinI(Len(meta) - 1, nb) : \A j \in 1..7 : WField(meta[k], (7 - j) * 12, 12) = RB(variant, b)!SubRank(k - 1, j))

FidInv(ln, kind, bv, bit, act, name) ==
    LET inv == DA(bv)!Inventory(bit)
    IN  /\ Rep(ln, kind, "DArr." \o name \o ".block_inventory", [t \in 1..Len(act.block_inventory) |-> SVal(act.block_inventory[t])] = inv.blk)
        /\ Rep(ln, kind, "DArr." \o name \o ".subblock_inventory", act.subblock_inventory = inv.sub)
        /\ Rep(ln, kind, "DArr." \o name \o ".overflow_positions", WSeq(act.overflow_positions) = inv.ovf)

FidDA(ln, L, kind) ==
    LET e == Rec[ln]
        bv == Val[L]
    IN  /\ FidInv(ln, kind, bv, 1, e.val.ones_inventories, "ones")
        /\ (Len(e.val.zeroes_inventories) = 1 => FidInv(ln, kind, bv, 0, e.val.zeroes_inventories[1], "zeros"))

\* Huffman-shaped trees: the builder's symbol order is recorded by the hook in the constructor event
FidHuff(ln, L, kind) ==
    LET e == Rec[ln]
        ne == Rec[L]
        order == ne.tie_out[1]                       \* <<symbol value, code length in bits>> in the order used
        k == IF kind = "HWT" THEN 2 ELSE 4
        fr == IF k = 4 THEN 2 ELSE 1
        A == Len(order)
        p == [j \in 1..A |-> order[j][2] \div fr]
        alpha == ne.alpha
        \* model symbol j <-> value order[j][1]
        IdxOf(v) == CHOOSE j \in 1..A : order[j][1] = v
        sq == LET Sq == Val[L] IN [t \in 1..Len(Sq) |-> IdxOf(SymToInt(alpha[Sq[t]]))]
        codes == HW(k, p, sq)!Codes
        enc == IF kind = "HWT" THEN e.val.codes_encode[1] ELSE e.val.codes_encode
        lens == WSeq(e.val.lens)
        lv == HW(k, p, sq)!BuildLevels(codes.codes, sq, 1)
    IN  /\ Rep(ln, kind, "HuffWM.craft_wm_codes",
               ~codes.err /\ \A j \in 1..A : enc[order[j][1] + 1].content = codes.codes[j].content /\ enc[order[j][1] + 1].len = codes.codes[j].len)
        /\ Rep(ln, kind, "HuffWM.lens", Len(lens) = Len(lv) /\ \A t \in 1..MinI(Len(lens), Len(lv)) : lens[t] = Len(lv[t]))

FidPlainTree(ln, L, kind) ==
    LET e == Rec[ln]
        mx == TMeta[L].maxsym
        nl == WVal(e.val.n_levels)
    IN  Rep(ln, kind, "WM.n_levels", nl = (IF TreeFamOf(kind) = "QWT" THEN QuadLevels(mx) ELSE BinLevels(mx)))

\* bound variables are constant-level, which the instantiated modules require of their parameters
FidelityEv ==
    /\ IsEv("internals")
    /\ IF ~Live(Ev.o) \/ objs[Ev.o].line = 0 THEN TRUE
       ELSE \E ln \in {l}, L \in {objs[Ev.o].line}, kind \in {objs[Ev.o].kind} :
              IF kind \in {"RSQ256", "RSQ512"} THEN FidRSQ(ln, L, kind)
              ELSE IF kind = "RSN" THEN FidBin(ln, L, kind, "narrow")
              ELSE IF kind = "RSW" THEN FidBin(ln, L, kind, "wide")
              ELSE IF kind \in {"DA0", "DA1"} THEN FidDA(ln, L, kind)
              ELSE IF FamOfKind(kind) = "T" /\ TreeFamOf(kind) \in {"HQWT", "HWT"} /\ Len(Val[L]) > 0 THEN FidHuff(ln, L, kind)
              ELSE IF FamOfKind(kind) = "T" /\ Len(Val[L]) > 0 THEN FidPlainTree(ln, L, kind)
              ELSE TRUE
    /\ l' = l + 1
    /\ UNCHANGED <<objs, nbad, ncell, cov, done>>

FNext == IF IsEv("internals") THEN FidelityEv ELSE Next
FSpec == Init /\ [][FNext]_vars
=============================================================================
