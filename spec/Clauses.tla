------------------------------ MODULE Clauses ------------------------------
(***************************************************************************)
(* Level 0, part 2: the result relation of every public query of qwt as an *)
(* ordered clause table.  A clause is                                      *)
(*     [tag |-> name, any |-> BOOLEAN, exp |-> set of allowed outcomes]    *)
(* `any` marks the documented-panic clauses of C04 (any outcome allowed,   *)
(* object state unspecified afterwards).  The tag names the clause and is  *)
(* what identifies a finding.  These tables restate the property texts     *)
(* C01..C13 and are the single oracle used by trace validation (TraceLib), *)
(* by the bounded state machine (Lib) and by the refinement checks of the  *)
(* design models (Level 1).                                                *)
(***************************************************************************)
EXTENDS AbsSeq

Cl(tag, exp) == [tag |-> tag, any |-> FALSE, exp |-> exp]
ClAny(tag) == [tag |-> tag, any |-> TRUE, exp |-> {}]
ClOk(cl, got) == cl.any \/ got \in cl.exp

---------------------------------------------------------------------------
(* Wavelet trees.  fam: "QWT" (plain quad), "HQWT" (Huffman quad),         *)
(* "WT" (plain binary), "HWT" (Huffman binary).                            *)
(*   n      length of the sequence                                         *)
(*   maxsym largest symbol (limb tuple), meaningful when n > 0             *)
(*   c      the queried symbol (limb tuple)                                *)
(*   used   c occurs in the sequence                                       *)
(*   P      ascending 1-based positions of c (<<>> when not used)          *)
(***************************************************************************)

PlainFam(fam) == fam \in {"QWT", "WT"}

TreeFamOf(kind) ==
    IF kind \in {"QWT256", "QWT512", "QWT256Pfs", "QWT512Pfs"} THEN "QWT"
    ELSE IF kind \in {"HQWT256", "HQWT512", "HQWT256Pfs", "HQWT512Pfs"} THEN "HQWT"
    ELSE kind

\* width class of the alphabet: symbols needing more than 32 / 64 bits
WidthClass(maxsym) ==
    IF SymBitLen(maxsym) > 64 THEN ".w128"
    ELSE IF SymBitLen(maxsym) > 32 THEN ".w64"
    ELSE ""

TreeRank(fam, n, maxsym, c, used, P, i) ==
    IF n = 0 THEN Cl("rank.empty", IF fam = "QWT" THEN {NONE, 0} ELSE {NONE})
    ELSE IF IsHuge(i) \/ i > n THEN Cl("rank.pos_out", {NONE})
    ELSE IF PlainFam(fam) /\ SymLess(maxsym, c) THEN Cl("rank.sym_gt_max", {NONE})
    ELSE IF ~used THEN Cl("rank.absent", IF PlainFam(fam) THEN {0} ELSE {NONE})
    ELSE Cl("rank.gen" \o WidthClass(maxsym), {RankP(P, i)})

TreeSelect(fam, n, maxsym, c, used, P, k) ==
    IF n = 0 THEN Cl("select.empty", {NONE})
    ELSE IF PlainFam(fam) /\ SymLess(maxsym, c) THEN Cl("select.sym_gt_max", {NONE})
    ELSE IF ~used THEN Cl("select.absent", {NONE})
    ELSE IF IsHuge(k) \/ k >= Len(P) THEN Cl("select.missing", {NONE})
    ELSE Cl("select.gen" \o WidthClass(maxsym), {SelectP(P, k)})

\* S: sequence of alphabet ids, alpha: id -> symbol
TreeGet(n, S, alpha, maxsym, i) ==
    IF ~IsHuge(i) /\ i < n THEN Cl("get.in" \o WidthClass(maxsym), {alpha[S[i + 1]]})
    ELSE Cl("get.out", {<<NONE>>})

\* preconditions of the unchecked twins (the documented ones)
TreeRankPre(fam, n, maxsym, c, used, i) ==
    /\ n > 0 /\ ~IsHuge(i) /\ i <= n
    /\ IF PlainFam(fam) THEN SymLeq(c, maxsym) ELSE used
TreeSelectPre(used, P, k) == used /\ ~IsHuge(k) /\ k < Len(P)
TreeGetPre(n, i) == ~IsHuge(i) /\ i < n

---------------------------------------------------------------------------
(* Rank/select quad vectors (RSQVector256/512) and the plain quad vector.  *)
(* Q: sequence over 0..3, s: queried symbol 0..255                         *)

QuadGet(Q, i) ==
    IF ~IsHuge(i) /\ i < Len(Q) THEN Cl("get.in", {Q[i + 1]}) ELSE Cl("get.out", {NONE})

QuadRank(Q, s, P, i) ==
    IF s > 3 THEN Cl("rank.sym_gt_3", {NONE})
    ELSE IF IsHuge(i) \/ i > Len(Q) THEN Cl("rank.pos_out", {NONE})
    ELSE Cl("rank.gen", {RankP(P, i)})

QuadSelect(Q, s, P, k) ==
    IF s > 3 THEN Cl("select.sym_gt_3", {NONE})
    ELSE IF IsHuge(k) \/ k >= Len(P) THEN Cl("select.missing", {NONE})
    ELSE Cl("select.gen", {SelectP(P, k)})

QuadOccs(Q, s, P) ==
    IF s > 3 THEN Cl("occs.sym_gt_3", {NONE}) ELSE Cl("occs.gen", {Len(P)})

\* rank_block_unchecked(s, i): occurrences of s before the block (of bs symbols) that contains position i;
\* only specified for s <= 3 and i <= |Q| (it is an unsafe method with that precondition)
QuadRankBlock(Q, s, P, i, bs) ==
    IF s > 3 \/ IsHuge(i) \/ i > Len(Q) THEN ClAny("rank_block.outside_precondition")
    ELSE Cl("rank_block.gen", {RankP(P, (i \div bs) * bs)})

\* prefetch hints take any position, do nothing observable and never fail
PrefetchHint == Cl("prefetch.any_position", {0})

QuadOccsSmaller(Q, s) ==
    IF s > 3 THEN Cl("occs_smaller.sym_gt_3", {NONE})
    ELSE Cl("occs_smaller.gen", {Len(SelectSeq(Q, LAMBDA x : x < s))})

---------------------------------------------------------------------------
(* Bit structures.  B: sequence over {0,1}; P1 / P0 positions of ones /    *)
(* zeros.  kind in BV, BVM, RSN, RSW, DA0, DA1.                            *)

BitGet(B, i) ==
    IF ~IsHuge(i) /\ i < Len(B) THEN Cl("get.in", {B[i + 1]}) ELSE Cl("get.out", {NONE})

BitRank1(B, P1, i) ==
    IF Len(B) = 0 THEN Cl("rank1.empty", {NONE, 0})
    ELSE IF IsHuge(i) \/ i > Len(B) THEN Cl("rank1.pos_out", {NONE})
    ELSE Cl("rank1.gen", {RankP(P1, i)})

BitRank0(B, P1, i) ==
    IF Len(B) = 0 THEN Cl("rank0.empty", {NONE, 0})
    ELSE IF IsHuge(i) \/ i > Len(B) THEN Cl("rank0.pos_out", {NONE})
    ELSE Cl("rank0.gen", {i - RankP(P1, i)})

BitSelect(which, B, P, k) ==
    IF Len(B) = 0 THEN Cl(which \o ".empty", {NONE})
    ELSE IF IsHuge(k) \/ k >= Len(P) THEN Cl(which \o ".missing", {NONE})
    ELSE Cl(which \o ".gen", {SelectP(P, k)})

\* get_bits(index, len): None unless 1 <= len <= 64 and index + len <= n
BitGetBits(B, i, len) ==
    IF IsHuge(len) \/ len = 0 \/ len > 64 THEN Cl("get_bits.bad_len", {<<NONE>>})
    ELSE IF IsHuge(i) THEN Cl("get_bits.overflow", {<<NONE>>})
    ELSE IF i + len > Len(B) THEN Cl("get_bits.out", {<<NONE>>})
    ELSE IF i + len = Len(B) THEN Cl("get_bits.end_inclusive", {BitsAt(B, i, len)})
    ELSE Cl("get_bits.gen", {BitsAt(B, i, len)})

\* get_word(w): exact zero padded word inside the vector; an out-of-range
\* word index may panic (documented) or read padding
BitGetWord(B, w) ==
    IF ~IsHuge(w) /\ 64 * w < Len(B) THEN Cl("get_word.in", {WordAt(B, w)})
    ELSE Cl("get_word.pad", {<<PANIC>>, << >>})

---------------------------------------------------------------------------
(* Mutators of BitVectorMut: new value, or "undef" for a documented panic  *)

MutPush(B, b) == B \o <<b>>
MutAppendBitsOk(w, len) == ~IsHuge(len) /\ len <= 64 /\ ~WordStray(w, len)
MutAppendBits(B, w, len) == B \o WordBits(w, len)
MutExtendZeros(B, k) == B \o [q \in 1..k |-> 0]
MutSetOk(B, i) == ~IsHuge(i) /\ i < Len(B)
MutSet(B, i, b) == [B EXCEPT ![i + 1] = b]
MutSetBitsOk(B, i, len, w) ==
    /\ ~IsHuge(i) /\ ~IsHuge(len) /\ len <= 64 /\ i + len <= Len(B) /\ ~WordStray(w, len)
MutSetBits(B, i, len, w) ==
    [q \in 1..Len(B) |-> IF q > i /\ q <= i + len
                         THEN (IF \E t \in 1..Len(w) : w[t] = q - 1 - i THEN 1 ELSE 0)
                         ELSE B[q]]
StrictlyIncreasing(ps) == \A t \in 1..(Len(ps) - 1) : ps[t] < ps[t + 1]
MutExtendPositionsOk(ps) == StrictlyIncreasing(ps) /\ \A t \in 1..Len(ps) : ps[t] >= 0
\* set semantics: every listed position is set, the vector is zero-extended up to the largest
\* one; defined for any list of non-negative positions (duplicates, any order).  Position-list
\* constructors may refuse (panic on) a list that is not strictly increasing (C04); where
\* they accept it, this is the value.
PositionsDefined(ps) == \A t \in 1..Len(ps) : ps[t] >= 0
MaxPos(ps) == SX!FoldLeft(LAMBDA acc, x : MaxI(acc, x), -1, ps)
MutExtendPositions(B, ps) ==
    IF Len(ps) = 0 THEN B
    ELSE LET n2 == MaxI(Len(B), MaxPos(ps) + 1)
         IN  [q \in 1..n2 |-> IF \E t \in 1..Len(ps) : ps[t] = q - 1 THEN 1
                              ELSE IF q <= Len(B) THEN B[q] ELSE 0]

BitsOfPositions(ps) == MutExtendPositions(<< >>, ps)

\* bit vector obtained by collecting the positions of the ones of B
TruncAfterLastOne(B) == SubSeq(B, 1, SX!SelectLastInSeq(B, LAMBDA x : x = 1))

---------------------------------------------------------------------------
(* Word-level utilities (C17).  A word is the ascending list of its set    *)
(* bit positions.                                                          *)

SelectInWord(w, k, width) == IF k < Len(w) THEN w[k + 1] ELSE width
MsbOf(v) == IF SymBitLen(v) = 0 THEN 0 ELSE SymBitLen(v) - 1
PopcntWide(ws, n) ==
    LET F[j \in 0..MinI(n, Len(ws))] == IF j = 0 THEN 0 ELSE F[j - 1] + Len(ws[j])
    IN  F[MinI(n, Len(ws))]
\* the nb-bit digit of symbol s found at bit offset `shift`
DigitAt(s, shift, nb) ==
    IF nb = 2 THEN 2 * SymBitAt(s, shift + 1) + SymBitAt(s, shift) ELSE SymBitAt(s, shift)
\* stable grouping of a sequence of symbols by that digit, in increasing digit order
StablePartition(seq, shift, nb) ==
    LET G(d) == SelectSeq(seq, LAMBDA x : DigitAt(x, shift, nb) = d)
    IN  IF nb = 2 THEN G(0) \o G(1) \o G(2) \o G(3) ELSE G(0) \o G(1)
\* order-preserving remap of byte values onto 0..d-1
TextRemapSeq(bytes) ==
    LET D == {bytes[i] : i \in 1..Len(bytes)}
    IN  [i \in 1..Len(bytes) |-> Cardinality({x \in D : x < bytes[i]})]
TextRemapSize(bytes) == Cardinality({bytes[i] : i \in 1..Len(bytes)})

---------------------------------------------------------------------------
(* Bit structures whose positions do not fit TLC's integers: a leading run *)
(* of `base` equal bits (base given as <<0, limbs base 2^24, most          *)
(* significant first>>) followed by a short tail T.  Arguments and results are base + small     *)
(* offset, so the clauses are those of T shifted by base; the arithmetic   *)
(* on the limb lists is done here.                                         *)

LIMB == 16777216
\* base + delta for |delta| < 2^30; the most significant limb must stay positive
RECURSIVE BigAddAt(_, _, _)
BigAddAt(s, idx, delta) ==
    IF delta = 0 \/ idx < 2 THEN s
    ELSE LET t == s[idx] + delta
             q == IF t >= 0 THEN t \div LIMB ELSE -((-t + LIMB - 1) \div LIMB)
         IN  BigAddAt([s EXCEPT ![idx] = t - q * LIMB], idx - 1, q)
BigAdd(base, delta) == BigAddAt(base, Len(base), delta)
BigOk(base) == Len(base) >= 3 /\ base[1] = 0 /\ base[2] >= 128    \* at least 2^31, well formed
SmallNum(v) == IF v = 0 THEN <<0>> ELSE IF v < LIMB THEN <<0, v>> ELSE <<0, v \div LIMB, v % LIMB>>

\* The leading run consists of `fill` bits (0 or 1).  rel = offset of a position argument from
\* base (negative: inside the leading run).  Pb = positions of the bit b in the tail T.
BigGet(fill, T, rel) ==
    IF rel < 0 THEN Cl("get.in_lead", {SmallNum(fill)})
    ELSE IF rel < Len(T) THEN Cl("get.in", {SmallNum(T[rel + 1])})
    ELSE Cl("get.out", {<<NONE>>})
\* number of bits b before position base + rel
BigRank(b, fill, base, T, Pb, rel) ==
    LET which == IF b = 1 THEN "rank1" ELSE "rank0"
        inT == IF rel <= 0 THEN 0 ELSE RankP(Pb, rel)
    IN  IF rel > Len(T) THEN Cl(which \o ".pos_out", {<<NONE>>})
        ELSE IF b = fill THEN Cl(which \o ".gen_lead", {BigAdd(base, IF rel <= 0 THEN rel ELSE inT)})
        ELSE Cl(which \o ".gen", {SmallNum(inT)})
\* the k-th bit b for a small absolute k
BigSelectAbs(b, fill, base, Pb, k) ==
    LET which == IF b = 1 THEN "select1" ELSE "select0"
    IN  IF b = fill THEN Cl(which \o ".in_lead", {SmallNum(k)})
        ELSE IF k >= Len(Pb) THEN Cl(which \o ".missing", {<<NONE>>})
        ELSE Cl(which \o ".gen", {BigAdd(base, SelectP(Pb, k))})
\* the (base + j)-th bit b
BigSelectRel(b, fill, base, Pb, j) ==
    LET which == IF b = 1 THEN "select1" ELSE "select0"
    IN  IF b # fill THEN Cl(which \o ".missing", {<<NONE>>})       \* there are fewer than 2^31 such bits
        ELSE IF j < 0 THEN Cl(which \o ".in_lead", {BigAdd(base, j)})
        ELSE IF j >= Len(Pb) THEN Cl(which \o ".missing", {<<NONE>>})
        ELSE Cl(which \o ".gen_lead", {BigAdd(base, SelectP(Pb, j))})

---------------------------------------------------------------------------
(* The public generators of perf_and_test_utils (beyond the listed         *)
(* properties): randomised, so only their documented contracts are stated. *)

\* n values of the alphabet [0, sigma] / of the range [0, range_size]
TuBounded(out, n, bound) == Len(out) = n /\ \A t \in 1..Len(out) : out[t] >= 0 /\ out[t] <= bound
\* n pairs (value in [0, range_size], symbol in [0, sigma])
TuPairs(out, n, r, sigma) == Len(out) = n /\ \A t \in 1..Len(out) : out[t][1] >= 0 /\ out[t][1] <= r /\ out[t][2] >= 0 /\ out[t][2] <= sigma
\* a strictly increasing sequence of n values up to u
TuIncreasing(out, n, u) == Len(out) = n /\ StrictlyIncreasing(out) /\ \A t \in 1..Len(out) : out[t] >= 0 /\ out[t] <= u
\* all the values below the last element of the strictly increasing v that are not in v
TuNegate(v) == SelectSeq([q \in 1..v[Len(v)] |-> q - 1], LAMBDA x : \A t \in 1..Len(v) : v[t] # x)
\* rank queries on s: (a position of s, a symbol of s)
TuRankQueries(out, n, s) == Len(out) = n /\ \A t \in 1..Len(out) :
    out[t][1] >= 0 /\ out[t][1] < Len(s) /\ \E q \in 1..Len(s) : s[q] = out[t][2]
\* select queries on s: (p, c) with c a symbol of s and 1 <= p <= number of occurrences of c
TuSelectQueries(out, n, s) == Len(out) = n /\ \A t \in 1..Len(out) :
    /\ \E q \in 1..Len(s) : s[q] = out[t][2]
    /\ out[t][1] >= 1 /\ out[t][1] <= Cardinality({q \in 1..Len(s) : s[q] = out[t][2]})

---------------------------------------------------------------------------
(* Long quad structures (hundreds of millions of symbols, positions still   *)
(* below 2^31): `base` copies of the symbol f, then a short tail T.        *)
(* Ps = positions of the symbol s in T; plain integer arithmetic.          *)

BigQGet(f, T, rel) ==
    IF rel < 0 THEN Cl("get.in_lead", {f})
    ELSE IF rel < Len(T) THEN Cl("get.in", {T[rel + 1]})
    ELSE Cl("get.out", {NONE})
BigQRank(s, f, base, T, Ps, rel) ==
    IF s > 3 THEN Cl("rank.sym_gt_3", {NONE})
    ELSE IF rel > Len(T) THEN Cl("rank.pos_out", {NONE})
    ELSE LET inT == IF rel <= 0 THEN 0 ELSE RankP(Ps, rel)
         IN  IF s = f THEN Cl("rank.gen_lead", {base + (IF rel <= 0 THEN rel ELSE inT)})
             ELSE Cl("rank.gen", {inT})
\* k is the absolute (0-based) occurrence index
BigQSelect(s, f, base, Ps, k) ==
    IF s > 3 THEN Cl("select.sym_gt_3", {NONE})
    ELSE IF s = f
    THEN (IF k < base THEN Cl("select.in_lead", {k})
          ELSE IF k - base < Len(Ps) THEN Cl("select.gen_lead", {base + SelectP(Ps, k - base)})
          ELSE Cl("select.missing", {NONE}))
    ELSE IF k < Len(Ps) THEN Cl("select.gen", {base + SelectP(Ps, k)})
    ELSE Cl("select.missing", {NONE})
BigQOccs(s, f, base, Ps) ==
    IF s > 3 THEN Cl("occs.sym_gt_3", {NONE}) ELSE Cl("occs.gen", {(IF s = f THEN base ELSE 0) + Len(Ps)})
BigQOccsSmaller(s, f, base, T) ==
    IF s > 3 THEN Cl("occs_smaller.sym_gt_3", {NONE})
    ELSE Cl("occs_smaller.gen", {(IF f < s THEN base ELSE 0) + Cardinality({q \in 1..Len(T) : T[q] < s})})

---------------------------------------------------------------------------
(* Kinds of values and the conversions between them (the type-state graph  *)
(* of the library): which conversion methods a kind offers and the kind    *)
(* of the result.  TraceLib's Conv action and the LibConv machine share    *)
(* these definitions.                                                      *)

TreeKindNames == {"QWT256", "QWT512", "QWT256Pfs", "QWT512Pfs", "HQWT256", "HQWT512", "HQWT256Pfs", "HQWT512Pfs", "WT", "HWT"}
AllKindNames == TreeKindNames \cup {"QV", "RSQ256", "RSQ512", "QB", "BV", "BVM", "RSN", "RSW", "DA0", "DA1"}

FamOfKind(kind) ==
    IF kind \in {"QV", "RSQ256", "RSQ512"} THEN "Q"
    ELSE IF kind = "QB" THEN "QB"
    ELSE IF kind \in {"BV", "BVM", "RSN", "RSW", "DA0", "DA1"} THEN "B"
    ELSE "T"

ConvKind(m, srckind) ==
    IF m \in {"clone", "serde", "collect_iter"} THEN srckind
    ELSE IF m = "into_bv" THEN "BV" ELSE IF m = "into_bvm" THEN "BVM"
    ELSE IF m \in {"rs_narrow", "rs_narrow_from"} THEN "RSN"
    ELSE IF m \in {"rs_wide", "rs_wide_from"} THEN "RSW"
    ELSE IF m = "da0" THEN "DA0" ELSE IF m = "da1" THEN "DA1"
    ELSE IF m = "qbuild" THEN "QV" ELSE IF m = "rsq256" THEN "RSQ256" ELSE IF m = "rsq512" THEN "RSQ512"
    ELSE srckind

\* the conversions a value of a kind offers (every value can be cloned; every value but the
\* builder can be serialized)
ConvMethods(kind) ==
    IF kind = "BVM" THEN {"clone", "serde", "collect_iter", "into_bv"}
    ELSE IF kind = "BV" THEN {"clone", "serde", "collect_iter", "into_bvm", "rs_narrow", "rs_narrow_from",
                               "rs_wide", "rs_wide_from", "da0", "da1"}
    ELSE IF kind \in {"RSN", "RSW", "DA0", "DA1", "RSQ256", "RSQ512"} THEN {"clone", "serde"}
    ELSE IF kind = "QB" THEN {"qbuild"}
    ELSE IF kind = "QV" THEN {"clone", "serde", "rsq256", "rsq512"}
    ELSE {"clone", "serde", "collect_iter"}

---------------------------------------------------------------------------
(* Iterators.  A double-ended iterator over S is (f, b): the next front    *)
(* element is S[f+1], the next back element S[b].                          *)

ItInit(S) == [f |-> 0, b |-> Len(S)]
ItNextOut(S, it) == IF it.f < it.b THEN S[it.f + 1] ELSE NONE
ItNext(S, it) == IF it.f < it.b THEN [it EXCEPT !.f = @ + 1] ELSE it
ItBackOut(S, it) == IF it.f < it.b THEN S[it.b] ELSE NONE
ItBack(S, it) == IF it.f < it.b THEN [it EXCEPT !.b = @ - 1] ELSE it
ItLen(it) == it.b - it.f
\* nth(k) / nth_back(k): skip k elements, yield the next one; exhausted when fewer than k + 1 are left
ItNthOut(S, it, k) == IF it.f + k < it.b THEN S[it.f + k + 1] ELSE NONE
ItNth(S, it, k) == IF it.f + k < it.b THEN [it EXCEPT !.f = @ + k + 1] ELSE [it EXCEPT !.f = it.b]
ItNthBackOut(S, it, k) == IF it.f + k < it.b THEN S[it.b - k] ELSE NONE
ItNthBack(S, it, k) == IF it.f + k < it.b THEN [it EXCEPT !.b = @ - k - 1] ELSE [it EXCEPT !.b = it.f]

============================================================================
