-------------------------------- MODULE Words --------------------------------
(***************************************************************************)
(* Level 1 design model of `utils::select_in_word` (C17): the broadword    *)
(* selection algorithm (Vigna; Gog & Petri) transcribed statement by       *)
(* statement for a word of NB bytes (code: NB = 8), so that TLC can visit  *)
(* EVERY word: byte-wise population counts by the three masking steps,     *)
(* prefix sums by multiplication, the byte-parallel comparison             *)
(* ((k | 0x80) - sum) & 0x80, the byte position `place`, the rank inside   *)
(* the byte, and the in-byte lookup table - here a definition, in the code *)
(* the 2048-entry constant that the conformance check exercises entry by   *)
(* entry through the real function.                                        *)
(* Checked: for every word and every k the result is the Level-0           *)
(* definition Clauses!SelectInWord (position of the (k+1)-th set bit, or   *)
(* the word size when there is none); all intermediate values stay in      *)
(* range (no borrow between bytes in the comparison, k - prefix >= 0).     *)
(***************************************************************************)
EXTENDS Clauses, Bitwise, TLC

CONSTANTS NB,          \* bytes per word (code: 8)
          PrefixShift  \* "code": prefix of the bytes below = (byte_sums << 8) >> place ; "noshift": a seeded change (byte_sums >> place)

W == 8 * NB
MOD == Pow2(W)

VARIABLE word
vars == <<word>>
Init == word \in 0..(MOD - 1)
Next == UNCHANGED word
Spec == Init /\ [][Next]_vars

\* 0x11..1, 0x0101..01, 0x8080..80 for NB bytes
RECURSIVE Rep(_, _, _)
Rep(pat, width, cnt) == IF cnt = 0 THEN 0 ELSE pat + Pow2(width) * Rep(pat, width, cnt - 1)
Ones4 == Rep(1, 4, 2 * NB)
Ones8 == Rep(1, 8, NB)
Lambdas == Rep(128, 8, NB)

Shr(x, n) == x \div Pow2(n)
Shl(x, n) == (x * Pow2(n)) % MOD
PopCount(x) == Cardinality({i \in 0..(W - 1) : (x \div Pow2(i)) % 2 = 1})

\* K_SELECT_IN_BYTE[byte | rank << 8]: position of the rank-th set bit of the byte, 8 if there is none
InByte(byte, rank) ==
    LET ones == {i \in 0..7 : (byte \div Pow2(i)) % 2 = 1}
    IN  IF rank < Cardinality(ones) THEN CHOOSE p \in ones : Cardinality({x \in ones : x < p}) = rank ELSE 8

ERR == -99

SelectInWordImpl(w, k) ==
    LET s1 == w - Shr(w & (10 * Ones4), 1)
        s2 == (s1 & (3 * Ones4)) + (Shr(s1, 2) & (3 * Ones4))
        s3 == (s2 + Shr(s2, 4)) & (15 * Ones8)
        byte_sums == (s3 * Ones8) % MOD
        k_step8 == k * Ones8
        minuend == k_step8 | Lambdas
        geq == IF minuend < byte_sums THEN ERR ELSE (minuend - byte_sums) & Lambdas
        place == IF geq = ERR THEN ERR ELSE PopCount(geq) * 8
    IN  IF place = ERR THEN ERR
        ELSE IF place = W THEN W
        ELSE LET prefix == Shr(IF PrefixShift = "code" THEN Shl(byte_sums, 8) ELSE byte_sums, place) & 255
             IN  IF k < prefix THEN ERR
                 ELSE place + InByte(Shr(w, place) & 255, k - prefix)

BitsOf(w) == SelectSeq([i \in 1..W |-> i - 1], LAMBDA i : (w \div Pow2(i)) % 2 = 1)

\* the contract of C17 for every k below the word size
Refines == \A k \in 0..(W - 1) : SelectInWordImpl(word, k) = SelectInWord(BitsOf(word), k, W)
=============================================================================
