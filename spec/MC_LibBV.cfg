SPECIFICATION Spec
CONSTANTS
  Depth = 6
  MaxLen = 8
  PushVals = {0, 1}
  AppendArgs <- T_AppendArgs
  ZeroArgs <- T_ZeroArgs
  SetPos <- T_SetPos
  SetBitsArgs <- T_SetBitsArgs
  BoolArgs <- T_BoolArgs
  PosArgs <- T_PosArgs
  Back = 2
  AsFoundSetBits = FALSE
  PosCount = "per_position"
VIEW NoHist
INVARIANT CountInv
INVARIANT ReadInv
PROPERTY AppendOnly
PROPERTY SetLocal
PROPERTY SetBitsRoundTrip
PROPERTY ExtendPositionsMonotone
CHECK_DEADLOCK FALSE
