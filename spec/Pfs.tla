--------------------------------- MODULE Pfs ---------------------------------
(***************************************************************************)
(* Level 1 design model of the prefetch support (C09, and the "never       *)
(* dereferenced, never a panic" clause it shares with C04):                *)
(* `PrefetchSupport::new` (one sample bit per block of RATE symbols and    *)
(* per symbol: "this block contains an occurrence whose count is a         *)
(* multiple of RATE", plus one final bit) and `approx_rank_unchecked`      *)
(* (`samples[c].rank1(block_id + 1).unwrap() * RATE`).                     *)
(* TLC checks for every quaternary sequence up to MaxN and every position  *)
(* i <= n: the rank1 argument never exceeds the sample vector's length     *)
(* (the unwrap cannot fire), and the estimate never exceeds occs(c), so    *)
(* that the estimated range of the next level stays inside that level      *)
(* (the estimates are only used as prefetch addresses and as arguments of  *)
(* the next level's approx_rank).  rank_prefetch itself ends in            *)
(* rank_unchecked, so its answer is rank's by construction.                *)
(***************************************************************************)
EXTENDS Clauses, TLC

CONSTANTS RATE,          \* symbols per sample block, a power of two (code: 2048)
          MaxN,
          FinalSample    \* "code": a sample is also pushed at i = len - 1 ; "dropped": a seeded change

VARIABLE Q
vars == <<Q>>

RECURSIVE QSeqsUpTo(_)
QSeqsUpTo(n) == IF n = 0 THEN {<< >>}
                ELSE LET R == QSeqsUpTo(n - 1) IN R \cup {Append(s, c) : s \in {r \in R : Len(r) = n - 1}, c \in 0..3}

Init == Q \in QSeqsUpTo(MaxN)
Next == UNCHANGED Q
Spec == Init /\ [][Next]_vars

N == Len(Q)

\* the sampling loop: state after consuming positions 0..i-1
RECURSIVE Sample(_)
Sample(i) ==
    IF i = 0 THEN [cnt |-> <<0, 0, 0, 0>>, bits |-> <<0, 0, 0, 0>>, bv |-> [s \in 1..4 |-> << >>]]
    ELSE LET p == Sample(i - 1)
             pos == i - 1
             s == Q[i] + 1
             cnt == [p.cnt EXCEPT ![s] = @ + 1]
             bits == IF cnt[s] % RATE = 0 THEN [p.bits EXCEPT ![s] = 1] ELSE p.bits
             push == pos % RATE = 0 \/ (FinalSample = "code" /\ pos = N - 1)
         IN  [cnt |-> cnt,
              bits |-> IF push THEN <<0, 0, 0, 0>> ELSE bits,
              bv |-> IF push THEN [t \in 1..4 |-> Append(p.bv[t], bits[t])] ELSE p.bv]

Samples == Sample(N).bv

Rank1(bv, k) == IF k > Len(bv) THEN NONE ELSE Cardinality({q \in 1..k : bv[q] = 1})

\* approx_rank_unchecked(symbol, i): NONE models the failing unwrap
Approx(smp, s, i) ==
    LET r == Rank1(smp[s + 1], (i \div RATE) + 1)
    IN  IF r = NONE THEN NONE ELSE r * RATE

\* the unwrap never fires for any position of the level (0 ..= n)
UnwrapSafe == LET smp == Samples IN \A s \in 0..3 : \A i \in 0..N : N > 0 => Approx(smp, s, i) # NONE

\* the estimate never exceeds the number of occurrences: the estimated range handed to the
\* next level stays within that level
EstimateBounded ==
    LET smp == Samples
    IN  \A s \in 0..3 : \A i \in 0..N :
          (N > 0 /\ Approx(smp, s, i) # NONE) => Approx(smp, s, i) <= Len(Positions(Q, s))

\* ... and it is within RATE of the exact rank from above, and never more than RATE + (RATE - 1) below
EstimateClose ==
    LET smp == Samples
    IN  \A s \in 0..3 : \A i \in 0..N :
          (N > 0 /\ Approx(smp, s, i) # NONE) =>
              LET ex == RankP(Positions(Q, s), i) IN Approx(smp, s, i) <= ex + RATE /\ ex <= Approx(smp, s, i) + 2 * RATE
=============================================================================
