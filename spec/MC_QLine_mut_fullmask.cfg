SPECIFICATION Spec
CONSTANTS
  WB = 3
  FullMaskCase = "never"
INVARIANT Refines
CHECK_DEADLOCK FALSE
