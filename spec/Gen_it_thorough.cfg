SPECIFICATION Spec
CONSTANTS
  Lens = {0, 1, 2, 3, 4}
  Extra = 3
INVARIANT Emit
INVARIANT ExactLen
CHECK_DEADLOCK FALSE
