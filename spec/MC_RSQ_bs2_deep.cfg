SPECIFICATION Spec
CONSTANTS
  LINE = 2
  BS = 2
  BPS = 2
  SAMPLE = 3
  MaxN = 8
  SentinelGuard = "code"
  SampleSlot = "code"
  PredTest = "code"
INVARIANT Refines
INVARIANT CountersExact
INVARIANT SamplesExact
INVARIANT NSuperblocks
CHECK_DEADLOCK FALSE
