SPECIFICATION Spec
CONSTANTS
  Depth = 4
  PoolMethods <- AllPoolMethods
INVARIANT TypeOK
INVARIANT Stamped
PROPERTY Independent
PROPERTY KeptUntouched
PROPERTY OnlyBVMGrows
CHECK_DEADLOCK FALSE
