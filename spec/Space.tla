------------------------------- MODULE Space -------------------------------
(***************************************************************************)
(* Resource relations (C14, C15, C16): the bytes a structure may retain    *)
(* and report, as functions of the abstract value.  Integer arithmetic     *)
(* only: n*H0 is bounded from above with a fixed-point log2 (6 fractional  *)
(* bits, table rounded so that the entropy bound is never stricter than    *)
(* stated).  All byte bounds follow the layouts of the crate:              *)
(*   quad level  : 2 bits/symbol in 64-byte lines + one 64-byte superblock *)
(*                 record per 8 blocks (block 256: 1/8, block 512: 1/16)   *)
(*                 + select samples (4 bytes per 8192 occurrences)         *)
(*   binary level: 1 bit/symbol + 16 bytes per 4096 bits + hints           *)
(* with an explicit head-room of 1 % and an additive term per level.       *)
(***************************************************************************)
EXTENDS Clauses

\* floor / ceil of 64*log2(m) for m = 64..129 (index m-63)
LgFloor == <<384, 385, 386, 388, 389, 390, 392, 393, 394, 396, 397, 398, 399, 401, 402, 403, 404, 405, 406, 408, 409, 410, 411, 412, 413, 414, 415, 416, 417, 418, 419, 420, 421, 422, 423, 424, 425, 426, 427, 427, 428, 429, 430, 431, 432, 433, 434, 434, 435, 436, 437, 438, 438, 439, 440, 441, 442, 442, 443, 444, 445, 445, 446, 447, 448, 448>>
LgCeil == <<384, 386, 387, 389, 390, 391, 393, 394, 395, 397, 398, 399, 400, 402, 403, 404, 405, 406, 407, 409, 410, 411, 412, 413, 414, 415, 416, 417, 418, 419, 420, 421, 422, 423, 424, 425, 426, 427, 428, 428, 429, 430, 431, 432, 433, 434, 435, 435, 436, 437, 438, 439, 439, 440, 441, 442, 443, 443, 444, 445, 446, 446, 447, 448, 448, 449>>

\* 64*log2(x) bounded from below / above, x >= 1
Log2Lo64(x) ==
    LET e == BitLen(x) - 1
    IN  IF e <= 6 THEN 64 * e - 384 + LgFloor[x * Pow2(6 - e) - 63]
        ELSE 64 * e - 384 + LgFloor[(x \div Pow2(e - 6)) - 63]
Log2Hi64(x) ==
    LET e == BitLen(x) - 1
    IN  IF e <= 6 THEN 64 * e - 384 + LgCeil[x * Pow2(6 - e) - 63]
        ELSE 64 * e - 384 + LgCeil[(x \div Pow2(e - 6)) + 1 - 63]

\* occurrences of pattern entry id in a segment list
CountIn(segs, id) ==
    LET F[j \in 0..Len(segs)] ==
            IF j = 0 THEN 0
            ELSE F[j - 1] + segs[j].rep * Cardinality({q \in 1..Len(segs[j].pat) : segs[j].pat[q] = id})
    IN  F[Len(segs)]

\* an upper bound of n * H0 in bits: sum_c cnt_c * (log2 n - log2 cnt_c), each term rounded up;
\* cnt * d / 64 is split so that no intermediate product exceeds 32 bits for n < 10^8
TermBits(cnt, d) == (cnt \div 64) * d + (((cnt % 64) * d) + 63) \div 64
NH0HiBits(n, cnts) ==
    LET hn == Log2Hi64(n)
    IN  FX!FoldSet(LAMBDA id, acc : acc + TermBits(cnts[id], hn - Log2Lo64(cnts[id])), 0, DOMAIN cnts)

---------------------------------------------------------------------------
(* level counts of the plain trees *)
QuadLevels(maxsym) == MaxI(1, (MaxI(1, SymBitLen(maxsym)) + 1) \div 2)
BinLevels(maxsym) == MaxI(1, SymBitLen(maxsym))

\* bytes one quad level over n symbols may retain: data + counters + 1 % + K
QuadLevelBound(n, bs, K) ==
    LET base == ((n + 255) \div 256) * 64
    IN  base + (IF bs = 256 THEN base \div 8 ELSE base \div 16) + base \div 100 + K
\* bytes one binary level over n bits may retain: 1.05 * n / 8 + K
BinLevelBound(n, K) ==
    LET base == ((n + 511) \div 512) * 64
    IN  base + base \div 20 + K

IsPfs(kind) == kind \in {"QWT256Pfs", "QWT512Pfs", "HQWT256Pfs", "HQWT512Pfs"}
BlockOf(kind) == IF kind \in {"QWT256", "QWT256Pfs", "HQWT256", "HQWT256Pfs", "RSQ256"} THEN 256 ELSE 512

\* C14: heap bytes of the plain structures
PlainHeapBound(kind, n, maxsym) ==
    IF kind \in {"QWT256", "QWT512", "QWT256Pfs", "QWT512Pfs"}
    THEN QuadLevels(maxsym) * QuadLevelBound(n, BlockOf(kind), IF IsPfs(kind) THEN 2048 ELSE 1024) + 512
    ELSE IF kind = "WT" THEN BinLevels(maxsym) * BinLevelBound(n, 512) + 512
    ELSE IF kind \in {"RSQ256", "RSQ512"} THEN QuadLevelBound(n, BlockOf(kind), 1024)
    ELSE IF kind = "RSW" THEN BinLevelBound(n, 512)
    ELSE -1

\* C15: level data of the Huffman-shaped trees, in bits
HuffFrag(kind) == IF kind = "HWT" THEN 1 ELSE 2
SumSeq(s) == LET F[j \in 0..Len(s)] == IF j = 0 THEN 0 ELSE F[j - 1] + s[j] IN F[Len(s)]
HuffLevelBits(kind, lens) == HuffFrag(kind) * SumSeq(lens)
PlainLevelBits(kind, n, maxsym) ==
    IF kind = "HWT" THEN n * BinLevels(maxsym) ELSE 2 * n * QuadLevels(maxsym)

\* heap of a Huffman-shaped tree: per level the bound of a plain level of that length,
\* plus the symbol-indexed code tables
HuffHeapBound(kind, lens, maxint) ==
    LET F[j \in 0..Len(lens)] ==
            IF j = 0 THEN 0
            ELSE F[j - 1] + (IF kind = "HWT" THEN BinLevelBound(lens[j], 512)
                             ELSE QuadLevelBound(lens[j], BlockOf(kind), IF IsPfs(kind) THEN 2048 ELSE 1024))
    IN  F[Len(lens)] + 72 * (maxint + 1) + 4096

\* C16: |reported - actual| <= 4 % of actual + 256 per component (+ tables of Huffman trees:
\* the encode table has 8 bytes per symbol value, a decode entry (u32, T) up to 32 bytes and the
\* decode vectors may keep up to twice their length as capacity: 72 bytes per symbol value)
ReportTolerance(actual, components, huff, maxint) ==
    actual \div 25 + 256 * components + (IF huff THEN 2304 + 72 * (maxint + 1) ELSE 0)

=============================================================================
