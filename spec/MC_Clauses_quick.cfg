SPECIFICATION Spec
CONSTANTS
  MaxN = 4
  MaxSym = 4
INVARIANT Total
INVARIANT Determined
INVARIANT Definitions
INVARIANT PreImpliesSome
INVARIANT InvalidIsNone
CHECK_DEADLOCK FALSE
