------------------------------ MODULE TraceLib ------------------------------
(***************************************************************************)
(* Trace validation: every event recorded from the real qwt library (one   *)
(* JSON line per call or per grid of calls, written by harness/qwt-drive)  *)
(* is replayed against the Level-0 specification.  The abstract state is   *)
(* the pool of live objects with the plain sequence each one denotes; the  *)
(* clause tables of Clauses.tla decide every logged outcome.               *)
(*                                                                         *)
(* The library is deterministic in its abstract state, so validation needs *)
(* no search: a wrong outcome is printed as a MISMATCH line (with the      *)
(* clause tag that identifies it) and the state still advances per the     *)
(* specification, so the rest of the trace is checked too.                 *)
(*                                                                         *)
(* Run:  TRACE=<file> tlc -workers 1 -config TraceLib.cfg TraceLib.tla     *)
(***************************************************************************)
EXTENDS Space, TLC, Json, IOUtils

Rec == ndJsonDeserialize(IOEnv.TRACE)
NRec == Len(Rec)

VARIABLES l,      \* next line of Rec to consume
          objs,   \* object id -> abstract object
          nbad,   \* mismatching cells so far
          ncell,  \* judged cells so far
          cov,    \* clause tags exercised: <<kind, tag, build>>
          done

vars == <<l, objs, nbad, ncell, cov, done>>

Has(e, f) == f \in DOMAIN e

---------------------------------------------------------------------------
(* Values denoted by constructor events (evaluated once, not per state)    *)

NewLines == {L \in 1..NRec : Rec[L].k \in {"newt", "newq", "newb"}}
NewTLines == {L \in NewLines : Rec[L].k = "newt"}
\* the tails of the "big" bit structures, flattened once (constant level)
BigLines == {L \in 1..NRec : Rec[L].k = "newbig"}
BigQLines == {L \in 1..NRec : Rec[L].k = "newbigq"}

PosToInt(s) == IF s[1] = 1 THEN -1 ELSE IF SymSmall(s) THEN SymToInt(s) ELSE 1073741824
RawPositions(e) == [t \in 1..Len(e.pos) |-> PosToInt(e.pos[t])]
RawPositionsOk(e) ==
    LET ps == RawPositions(e)
    IN  /\ \A t \in 1..Len(ps) : ps[t] >= 0 /\ ps[t] < 1073741824
        /\ StrictlyIncreasing(ps)
\* any order, duplicates allowed: accepted by the bit vector constructors (not by DArray)
RawPositionsUnordered(e) ==
    LET ps == RawPositions(e)
    IN  /\ e.kind \in {"BV", "BVM"} /\ ~RawPositionsOk(e)
        /\ \A t \in 1..Len(ps) : ps[t] >= 0 /\ ps[t] < 1073741824

\* "nv" = 1 marks a huge input that is only measured (space events): its flat value is never
\* needed, only its length and symbol counts, which are computed from the segments
NoValue(e) == Has(e, "nv") /\ e.nv = 1
SegsLen(segs) == LET F[j \in 0..Len(segs)] == IF j = 0 THEN 0 ELSE F[j - 1] + SegLen(segs[j]) IN F[Len(segs)]

NewVal(e) ==
    IF NoValue(e) THEN << >>
    ELSE IF e.k = "newt" THEN (IF e.path = "default" THEN << >> ELSE Flat(e.segs))
    ELSE IF e.k = "newq" THEN
        (IF e.path \in {"default", "qb_new", "qb_with_capacity"} THEN << >>
         ELSE LET F == Flat(e.segs) IN [q \in 1..Len(F) |-> SymMod4(e.alpha[F[q]])])
    ELSE \* newb
        IF e.path \in {"default", "bvm_new", "with_capacity"} THEN << >>
        ELSE IF e.path = "with_zeros" THEN [q \in 1..e.n |-> 0]
        ELSE IF e.path = "positions" THEN
            (IF Has(e, "pos") THEN (IF RawPositionsOk(e) \/ RawPositionsUnordered(e) THEN BitsOfPositions(RawPositions(e)) ELSE << >>)
             ELSE TruncAfterLastOne(Flat(e.segs)))
        ELSE Flat(e.segs)

Val == [L \in NewLines |-> NewVal(Rec[L])]

MaxId(alpha, used) ==
    FX!FoldSet(LAMBDA i, acc : IF SymLess(alpha[acc], alpha[i]) THEN i ELSE acc,
            CHOOSE i \in used : TRUE, used)

TMeta == [L \in NewTLines |->
            LET e == Rec[L]
                used == IF e.path = "default" THEN {} ELSE UsedIds(e.segs)
            IN  [n |-> IF NoValue(e) THEN SegsLen(e.segs) ELSE Len(Val[L]), used |-> used,
                 maxsym |-> IF used = {} THEN <<0>> ELSE e.alpha[MaxId(e.alpha, used)]]]

---------------------------------------------------------------------------
(* Abstract objects *)

Obj(fam, kind, ty, line, seq, dflt) ==
    [fam |-> fam, kind |-> kind, ty |-> ty, line |-> line, seq |-> seq,
     dead |-> FALSE, dflt |-> dflt, hist |-> ""]

SeqOf(o) == IF o.line > 0 THEN Val[o.line] ELSE o.seq

Live(id) == id \in DOMAIN objs /\ ~objs[id].dead

Put(id, o) == [x \in (DOMAIN objs) \cup {id} |-> IF x = id THEN o ELSE objs[x]]
Del(id) == [x \in (DOMAIN objs) \ {id} |-> objs[x]]

---------------------------------------------------------------------------
(* Reporting *)

Mis(e, o, tag, r, j, got, exp) ==
    [ln |-> e.ln, k |-> e.k, b |-> e.b, tag |-> tag, kind |-> o.kind, ty |-> o.ty,
     m |-> IF Has(e, "m") THEN e.m ELSE "", r |-> r, j |-> j, got |-> got, exp |-> exp]

NoObj == [kind |-> "", ty |-> ""]

Report(ms) == \A t \in 1..MinI(Len(ms), 8) : PrintT(<<"MISMATCH", ToJson(ms[t])>>)

ToolErr(e, what) == PrintT(<<"TOOLERR", ToJson([ln |-> e.ln, what |-> what])>>)

\* result of judging one event
Res(ms, nb, nc, tags) == [ms |-> ms, nb |-> nb, nc |-> nc, tags |-> tags]
ResOk(nc, tags) == Res(<< >>, 0, nc, tags)
ResBad(m, tags) == Res(<<m>>, 1, 1, tags)

Check(e, o, tag, cond, got, exp) ==
    IF cond THEN ResOk(1, {tag}) ELSE ResBad(Mis(e, o, tag, 0, 0, got, exp), {tag})

\* the defining line of a "big" bit structure (kept in the seq field)
BigLineOf(o) == o.seq[1]

IsSkipI(x) == x = SKIP
IsSkipV(x) == x = <<SKIP>>

\* judge a row of outcomes against a row of clauses; one mismatch record per
\* distinct clause tag (so that a new violation is never hidden behind a known one)
JudgeRowG(e, o, pre, r, cls, outs, live, vec) ==
    LET bad == {j \in live : ~ClOk(cls[j], outs[j])}
        NoneLike(j) == IF vec THEN outs[j] = <<NONE>> ELSE outs[j] = NONE
        Key(j) == <<cls[j].tag, NoneLike(j)>>
        keys == {Key(j) : j \in bad}
        First(ky) == CHOOSE j \in bad : Key(j) = ky /\ \A jj \in bad : Key(jj) = ky => j <= jj
        ms == SX!SetToSeq({Mis(e, o, pre \o ky[1], r, First(ky), outs[First(ky)], cls[First(ky)].exp) : ky \in keys})
    IN  Res(ms, Cardinality(bad), Cardinality(live), {pre \o cls[j].tag : j \in live})

JudgeRowI(e, o, pre, r, cls, outs) ==
    JudgeRowG(e, o, pre, r, cls, outs, {j \in 1..Len(outs) : ~IsSkipI(outs[j])}, FALSE)

JudgeRowV(e, o, pre, r, cls, outs) ==
    JudgeRowG(e, o, pre, r, cls, outs, {j \in 1..Len(outs) : ~IsSkipV(outs[j])}, TRUE)

RECURSIVE MergeFrom(_, _)
MergeFrom(rs, t) ==
    IF t > Len(rs) THEN Res(<< >>, 0, 0, {})
    ELSE LET a == rs[t] b == MergeFrom(rs, t + 1)
         IN  Res(a.ms \o b.ms, a.nb + b.nb, a.nc + b.nc, a.tags \cup b.tags)
Merge(rs) == MergeFrom(rs, 1)

---------------------------------------------------------------------------
(* Grids on trees *)

IdOf(alpha, used, c) ==
    IF \E i \in used : alpha[i] = c THEN CHOOSE i \in used : alpha[i] = c ELSE 0

TreeRowCls(o, m, c, as) ==
    LET L == o.line
        S == Val[L]
        meta == TMeta[L]
        alpha == Rec[L].alpha
        fam == TreeFamOf(o.kind)
        cid == IdOf(alpha, meta.used, c)
        P == IF cid = 0 THEN << >> ELSE Positions(S, cid)
    IN  [j \in 1..Len(as) |->
            IF m \in {"rank", "rank_prefetch"}
            THEN TreeRank(fam, meta.n, meta.maxsym, c, cid # 0, P, as[j])
            ELSE TreeSelect(fam, meta.n, meta.maxsym, c, cid # 0, P, as[j])]

TreeGetCls(o, as) ==
    LET L == o.line
        S == Val[L]
        meta == TMeta[L]
        alpha == Rec[L].alpha
    IN  [j \in 1..Len(as) |-> TreeGet(meta.n, S, alpha, meta.maxsym, as[j])]

TreeHasMethod(o, m) ==
    \/ m \in {"get", "rank", "select"}
    \/ m = "rank_prefetch" /\ TreeFamOf(o.kind) \in {"QWT", "HQWT"}

\* grid `m` over cs x as with outcomes `out`
TreeGrid(e, o, m, out) ==
    LET fam == TreeFamOf(o.kind)
        pre == fam \o "."
    IN  IF ~TreeHasMethod(o, m) THEN ResOk(0, {})
        ELSE IF m = "get" THEN JudgeRowV(e, o, pre, 1, TreeGetCls(o, e.as), out[1])
        ELSE Merge([r \in 1..Len(e.cs) |->
                      JudgeRowI(e, o, IF m = "rank_prefetch" THEN pre \o "prefetch." ELSE pre, r,
                                TreeRowCls(o, m, e.cs[r], e.as), out[r])])

---------------------------------------------------------------------------
(* Grids on quad vectors *)

QuadRowCls(Q, m, s, as, bs) ==
    LET P == IF s > 3 THEN << >> ELSE Positions(Q, s)
    IN  [j \in 1..Len(as) |->
            IF m = "rank" THEN QuadRank(Q, s, P, as[j])
            ELSE IF m = "rank_block_unchecked" THEN QuadRankBlock(Q, s, P, as[j], bs)
            ELSE IF m = "select" THEN QuadSelect(Q, s, P, as[j])
            ELSE IF m = "occs" THEN QuadOccs(Q, s, P)
            ELSE QuadOccsSmaller(Q, s)]

QuadHasMethod(o, m) ==
    \/ m = "get"
    \/ o.kind # "QV" /\ m \in {"rank", "select", "occs", "occs_smaller", "rank_block_unchecked", "prefetch_info", "prefetch_data"}

QuadGrid(e, o, m, out) ==
    LET Q == SeqOf(o)
        pre == (IF o.kind = "QV" THEN "QV" ELSE "RSQ") \o "."
    IN  IF ~QuadHasMethod(o, m) THEN ResOk(0, {})
        ELSE IF m = "get"
        THEN JudgeRowI(e, o, pre, 1, [j \in 1..Len(e.as) |-> QuadGet(Q, e.as[j])], out[1])
        ELSE IF m \in {"prefetch_info", "prefetch_data"}
        THEN JudgeRowI(e, o, pre, 1, [j \in 1..Len(e.as) |-> PrefetchHint], out[1])
        ELSE Merge([r \in 1..Len(e.cs) |->
                      JudgeRowI(e, o, pre, r, QuadRowCls(Q, m, e.cs[r], e.as, IF o.kind = "RSQ256" THEN 256 ELSE 512), out[r])])

---------------------------------------------------------------------------
(* Grids on bit structures *)

BitHasMethod(o, m) ==
    \/ m = "get"
    \/ o.kind \in {"BV", "BVM"} /\ m \in {"get_bits", "get_word"}
    \/ o.kind = "BV" /\ m \in {"n_lines", "prefetch_line"}
    \/ o.kind = "RSW" /\ m \in {"prefetch_info", "prefetch_data"}
    \/ o.kind \in {"RSN", "RSW"} /\ m \in {"rank1", "rank0", "select1", "select0"}
    \/ o.kind \in {"DA0", "DA1"} /\ m \in {"select1", "select0"}

BitPre(o) == (IF o.kind \in {"BV", "BVM"} THEN "BV"
              ELSE IF o.kind \in {"DA0", "DA1"} THEN "DA" ELSE o.kind) \o "."

BitGrid(e, o, m, out) ==
    LET B == SeqOf(o)
        pre == BitPre(o)
        as == e.as
    IN  IF ~BitHasMethod(o, m) THEN ResOk(0, {})
        ELSE IF m = "get" THEN JudgeRowI(e, o, pre, 1, [j \in 1..Len(as) |-> BitGet(B, as[j])], out[1])
        ELSE IF m = "get_bits"
        THEN JudgeRowV(e, o, pre \o (IF o.kind = "BVM" THEN "mut." ELSE ""), 1,
                       [j \in 1..Len(as) |-> BitGetBits(B, as[j][1], as[j][2])], out[1])
        ELSE IF m = "get_word"
        THEN JudgeRowV(e, o, pre, 1, [j \in 1..Len(as) |-> BitGetWord(B, as[j])], out[1])
        ELSE IF m \in {"prefetch_line", "prefetch_info", "prefetch_data"}
        THEN JudgeRowI(e, o, pre, 1, [j \in 1..Len(as) |-> PrefetchHint], out[1])
        ELSE IF m = "n_lines"
        THEN JudgeRowI(e, o, pre, 1, [j \in 1..Len(as) |-> Cl("n_lines", {(Len(B) + 511) \div 512})], out[1])
        ELSE IF m \in {"rank1", "rank0"}
        THEN LET P1 == Positions(B, 1)
             IN  JudgeRowI(e, o, pre, 1,
                           [j \in 1..Len(as) |-> IF m = "rank1" THEN BitRank1(B, P1, as[j])
                                                 ELSE BitRank0(B, P1, as[j])], out[1])
        ELSE IF m = "select0" /\ o.kind = "DA0"
        THEN JudgeRowI(e, o, pre, 1, [j \in 1..Len(as) |-> ClAny("select0.unsupported")], out[1])
        ELSE LET P == Positions(B, IF m = "select1" THEN 1 ELSE 0)
                 w == IF o.dflt THEN m \o "_default" ELSE m
             IN  JudgeRowI(e, o, pre, 1, [j \in 1..Len(as) |-> BitSelect(w, B, P, as[j])], out[1])

Grid(e, o, m, out) ==
    IF o.fam = "T" THEN TreeGrid(e, o, m, out)
    ELSE IF o.fam = "Q" THEN QuadGrid(e, o, m, out)
    ELSE IF o.fam = "B" THEN BitGrid(e, o, m, out)
    ELSE ResOk(0, {})

---------------------------------------------------------------------------
(* meta: lengths, counters, sigma *)

MetaField(e, o, pre, f, exp) ==
    IF e[f] = NA THEN ResOk(0, {})
    ELSE IF e[f] \in exp THEN ResOk(1, {pre \o "meta." \o f})
    ELSE ResBad(Mis(e, o, pre \o "meta." \o f, 0, 0, e[f], exp), {pre \o "meta." \o f})

MetaJudge(e, o) ==
    LET S == SeqOf(o) n == Len(S)
    IN  IF o.fam = "T" THEN
            LET fam == TreeFamOf(o.kind)
                pre == fam \o "."
                mx == TMeta[o.line].maxsym
                sg == IF e.sigma = <<NA>> THEN ResOk(0, {})
                      ELSE LET exp == IF n = 0 THEN {<<NONE>>} ELSE {mx}
                           IN  IF e.sigma \in exp THEN ResOk(1, {pre \o "meta.sigma"})
                               ELSE ResBad(Mis(e, o, pre \o "meta.sigma", 0, 0, e.sigma, exp), {pre \o "meta.sigma"})
            IN  Merge(<<MetaField(e, o, pre, "len", {n}),
                        MetaField(e, o, pre, "is_empty", {IF n = 0 THEN 1 ELSE 0}), sg>>)
        ELSE IF o.fam = "Q" THEN
            LET pre == (IF o.kind = "QV" THEN "QV" ELSE "RSQ") \o "."
            IN  Merge(<<MetaField(e, o, pre, "len", {n}),
                        MetaField(e, o, pre, "is_empty", {IF n = 0 THEN 1 ELSE 0})>>)
        ELSE IF o.fam = "B" THEN
            LET pre == BitPre(o) \o (IF o.hist = "set_bits" THEN "after_set_bits." ELSE "")
                ones == Len(Positions(S, 1))
                base == <<MetaField(e, o, pre, "ones", {ones}),
                          MetaField(e, o, pre, "zeros", {n - ones})>>
            IN  Merge(base
                      \o (IF Has(e, "len") THEN <<MetaField(e, o, pre, "len", {n})>> ELSE << >>)
                      \o (IF Has(e, "is_empty") THEN <<MetaField(e, o, pre, "is_empty", {IF n = 0 THEN 1 ELSE 0})>> ELSE << >>)
                      \o (IF Has(e, "zeros_trait") THEN <<MetaField(e, o, pre, "zeros_trait", {n - ones})>> ELSE << >>))
        ELSE ResOk(0, {})

---------------------------------------------------------------------------
(* Iterator histories: ops over {n, b, l, j, k, B}; out[t] = <<0>> none, <<1, v..>> *)
(* some, <<2, len>>, <<-2>> panic                                          *)

RECURSIVE ItRun(_, _, _, _, _, _, _, _)
\* returns Res; S = element sequence (values as they are logged), it = (f,b)
ItRun(e, o, pre, S, it, ops, out, t) ==
    IF t > Len(out) \/ t > Len(ops) THEN Res(<< >>, 0, 0, {})
    ELSE LET op == ops[t]
             got == out[t]
             front == it.f < it.b
             skip == IF op = "j" THEN 1 ELSE IF op = "k" THEN 3 ELSE IF op = "B" THEN 2 ELSE 0
             enough == it.f + skip < it.b
             exp == IF op \in {"n", "j", "k"} THEN (IF enough THEN <<1>> \o ItNthOut(S, it, skip) ELSE <<0>>)
                    ELSE IF op \in {"b", "B"} THEN (IF enough THEN <<1>> \o ItNthBackOut(S, it, skip) ELSE <<0>>)
                    ELSE <<2, it.b - it.f>>
             tag == pre \o (IF op = "n" THEN "next" ELSE IF op = "b" THEN "next_back"
                            ELSE IF op \in {"j", "k"} THEN "nth" ELSE IF op = "B" THEN "nth_back" ELSE "len")
                        \o (IF front THEN ".live" ELSE ".exhausted")
             it2 == IF op \in {"n", "j", "k"} THEN ItNth(S, it, skip)
                    ELSE IF op \in {"b", "B"} THEN ItNthBack(S, it, skip) ELSE it
             \* size_hint: lower <= remaining <= upper (when an upper bound is given); a huge value is -3
             rem == it.b - it.f
             hintok == /\ Len(got) = 3 /\ got[1] = 3
                       /\ got[2] >= 0 /\ got[2] <= rem
                       /\ (got[3] = NONE \/ got[3] = HUGERES \/ got[3] >= rem)
         IN  IF got = <<NA>> THEN Res(<< >>, 0, 0, {})
             ELSE IF op = "h"
             THEN (IF hintok
                   THEN LET rest == ItRun(e, o, pre, S, it, ops, out, t + 1)
                        IN  Res(rest.ms, rest.nb, rest.nc + 1, rest.tags \cup {pre \o "size_hint" \o (IF front THEN ".live" ELSE ".exhausted")})
                   ELSE ResBad(Mis(e, o, pre \o "size_hint" \o (IF front THEN ".live" ELSE ".exhausted"), 0, t, got, {<<3, rem, rem>>}),
                               {pre \o "size_hint"}))
             ELSE IF got = exp
             THEN LET rest == ItRun(e, o, pre, S, it2, ops, out, t + 1)
                  IN  Res(rest.ms, rest.nb, rest.nc + 1, rest.tags \cup {tag})
             ELSE \* after a wrong answer the rest of the history is not judged
                  ResBad(Mis(e, o, tag, 0, t, got, {exp}), {tag})

OpsOf(str) == str  \* ops are logged as a list of one-letter strings

\* the sequence an iterator of kind m over object o must yield, each element
\* rendered as the payload tuple the harness logs
IterElems(e, o) ==
    LET S == SeqOf(o)
    IN  IF o.fam = "T"
        THEN LET alpha == Rec[o.line].alpha IN [q \in 1..Len(S) |-> alpha[S[q]]]
        ELSE IF e.m \in {"iter", "into_iter", "ref_into_iter"} THEN [q \in 1..Len(S) |-> <<S[q]>>]
        ELSE LET bit == IF e.m \in {"ones", "ones_with_pos"} THEN 1 ELSE 0
                 from == IF e.m \in {"ones", "zeros"} THEN 0
                         ELSE IF IsHuge(e.a[1]) THEN Len(S) ELSE e.a[1]
                 P == SelectSeq(Idx(S), LAMBDA p : S[p] = bit /\ p > from)
             IN  [q \in 1..Len(P) |-> <<P[q] - 1>>]

IterJudge(e, o) ==
    LET pre == (IF o.fam = "T" THEN "WTIter." ELSE IF o.fam = "Q" THEN "QVIter."
                ELSE IF e.m \in {"iter", "into_iter"} THEN "BVIter." \o e.m \o "." ELSE "PosIter.")
        S == IterElems(e, o)
    IN  ItRun(e, o, pre, S, ItInit(S), e.ops, e.out, 1)

---------------------------------------------------------------------------
(* Actions: one per event kind *)

Ev == Rec[l]
IsEv(k) == l <= NRec /\ Rec[l].k = k

Advance(res, newobjs) ==
    /\ Report(res.ms)
    /\ l' = l + 1
    /\ objs' = newobjs
    /\ nbad' = nbad + res.nb
    /\ ncell' = ncell + res.nc
    /\ cov' = cov \cup {<<t, Ev.b>> : t \in res.tags}
    /\ UNCHANGED done

\* every idx triple recorded by the unchecked-index monitor must be in bounds
IdxRes(e) ==
    IF ~Has(e, "idx") THEN ResOk(0, {})
    ELSE LET bad == {t \in 1..Len(e.idx) : ~(e.idx[t][2] >= 0 /\ (e.idx[t][3] = HUGERES \/ e.idx[t][2] < e.idx[t][3]))}
             t0 == CHOOSE t \in bad : TRUE
         IN  IF bad = {} THEN ResOk(Len(e.idx), {"idx." \o e.idx[t][1] : t \in 1..Len(e.idx)})
             ELSE Res(<<Mis(e, NoObj, "idx." \o e.idx[t0][1], 0, t0, e.idx[t0][2], {e.idx[t0][3]})>>,
                      Cardinality(bad), Len(e.idx), {})

Reset == /\ IsEv("reset")
         /\ Advance(ResOk(0, {}), << >>)

NewObj ==
    /\ (IsEv("newt") \/ IsEv("newq") \/ IsEv("newb"))
    /\ LET e == Ev
           fam == FamOfKind(e.kind)
           ty == IF Has(e, "ty") THEN e.ty ELSE ""
           rawbad == e.k = "newb" /\ e.path = "positions" /\ Has(e, "pos") /\ ~RawPositionsOk(e)
           unordered == rawbad /\ RawPositionsUnordered(e)
           cls == (IF fam = "T" THEN TreeFamOf(e.kind) ELSE e.kind) \o ".new." \o
                  (IF unordered /\ e.out = 0 THEN "unordered_positions"
                   ELSE IF rawbad THEN "bad_positions"
                   ELSE IF e.path = "default" THEN "default"
                   ELSE IF Len(Val[l]) = 0 /\ ~NoValue(e) THEN "empty"
                   ELSE IF fam = "T" /\ Cardinality(TMeta[l].used) = 1 THEN "single_symbol"
                   ELSE IF fam = "T" THEN "gen" \o WidthClass(TMeta[l].maxsym)
                   ELSE "gen")
           o == Obj(fam, e.kind, ty, l, << >>, e.path = "default")
       IN  IF rawbad /\ ~(unordered /\ e.out = 0)
           THEN \* documented panic: any outcome, nothing is tracked (a bit vector constructor that
                \* accepts an unordered list is tracked with the set semantics)
                Advance(Merge(<<ResOk(1, {cls}), IdxRes(e)>>), Del(e.o))
           ELSE IF e.out = 0 THEN Advance(Merge(<<ResOk(1, {cls}), IdxRes(e)>>), Put(e.o, o))
           ELSE IF e.out = NA THEN ToolErr(e, "constructor not available") /\ Advance(ResOk(0, {}), Del(e.o))
           ELSE Advance(ResBad(Mis(e, o, cls, 0, 0, e.out, {0}), {cls}), Del(e.o))

Meta ==
    /\ IsEv("meta")
    /\ LET e == Ev
       IN  IF Live(e.o) /\ e.out = 0 THEN Advance(Merge(<<MetaJudge(e, objs[e.o]), IdxRes(e)>>), objs)
           ELSE Advance(ResOk(0, {}), objs)

QGrid ==
    /\ IsEv("qg")
    /\ LET e == Ev
       IN  IF Live(e.o) THEN Advance(Merge(<<Grid(e, objs[e.o], e.m, e.out), IdxRes(e)>>), objs)
           ELSE Advance(ResOk(0, {}), objs)

\* equality of two logged outcomes of possibly different shape (a panic code against a matrix)
SameVal(a, b) == ToJson(a) = ToJson(b)

\* relational events: two outcome matrices that must be identical
RelRes(e, o, tag, a, b) ==
    IF SameVal(a, b) THEN ResOk(1, {tag}) ELSE ResBad(Mis(e, o, tag, 0, 0, a, {b}), {tag})

RelM ==
    /\ IsEv("relm")
    /\ LET e == Ev
       IN  IF Live(e.o) THEN Advance(Merge(<<RelRes(e, objs[e.o], "rel." \o e.rel, e.outa, e.outb), IdxRes(e)>>), objs)
           ELSE Advance(ResOk(0, {}), objs)

RelO ==
    /\ IsEv("relo")
    /\ LET e == Ev
       IN  IF Live(e.oa) /\ Live(e.ob)
           THEN Advance(Merge(<<RelRes(e, objs[e.oa], "rel." \o e.rel, e.outa, e.outb), IdxRes(e)>>), objs)
           ELSE Advance(ResOk(0, {}), objs)

\* unchecked twins: the precondition must hold in the abstract state (else the
\* generator is wrong: tool error); then unchecked = checked
UqPre(e, o, j) ==
    LET S == SeqOf(o) a == e.as[j]
    IN  IF o.fam = "T" THEN
            LET meta == TMeta[o.line]
                alpha == Rec[o.line].alpha
                fam == TreeFamOf(o.kind)
                c == e.cs[j]
                cid == IdOf(alpha, meta.used, c)
            IN  IF e.m = "get_unchecked" THEN TreeGetPre(meta.n, a)
                ELSE IF e.m \in {"rank_unchecked", "rank_prefetch_unchecked"}
                THEN TreeRankPre(fam, meta.n, meta.maxsym, c, cid # 0, a)
                ELSE cid # 0 /\ ~IsHuge(a) /\ a < Len(Positions(S, cid))
        ELSE IF o.fam = "Q" THEN
            LET s == e.cs[j]
            IN  IF e.m = "get_unchecked" THEN ~IsHuge(a) /\ a < Len(S)
                ELSE IF e.m = "rank_unchecked" THEN s <= 3 /\ ~IsHuge(a) /\ a <= Len(S)
                ELSE IF e.m = "select_unchecked" THEN s <= 3 /\ ~IsHuge(a) /\ a < Len(Positions(S, s))
                ELSE s <= 3
        ELSE IF e.m = "get_unchecked" THEN ~IsHuge(a) /\ a < Len(S)
        ELSE IF e.m = "get_bits_unchecked"
        THEN ~IsHuge(a[1]) /\ a[2] >= 1 /\ a[2] <= 64 /\ a[1] + a[2] <= Len(S)
        ELSE IF e.m \in {"rank1_unchecked", "rank0_unchecked"} THEN Len(S) > 0 /\ ~IsHuge(a) /\ a <= Len(S)
        ELSE IF e.m = "select1_unchecked" THEN ~IsHuge(a) /\ a < Len(Positions(S, 1))
        ELSE ~IsHuge(a) /\ a < Len(Positions(S, 0)) /\ o.kind # "DA0"

Uq ==
    /\ IsEv("uq")
    /\ LET e == Ev
       IN  IF ~Live(e.o) THEN Advance(ResOk(0, {}), objs)
           ELSE LET o == objs[e.o]
                    K == 1..Len(e.out)
                    illegal == {j \in K : ~UqPre(e, o, j)}
                    bad == {j \in K : ~SameVal(e.out[j], e.chk[j])}
                    vec == e.m = "get_bits_unchecked" \/ (o.fam = "T" /\ e.m = "get_unchecked")
                    \* one report for "the checked twin gave None" and one for any other disagreement
                    NoneChk(j) == IF vec THEN e.chk[j] = <<NONE>> ELSE e.chk[j] = NONE
                    classes == {NoneChk(j) : j \in bad}
                    First(c) == CHOOSE j \in bad : NoneChk(j) = c /\ \A jj \in bad : NoneChk(jj) = c => j <= jj
                    tag == "unchecked." \o e.m
                IN  IF illegal # {}
                    THEN ToolErr(e, "unchecked call outside its precondition") /\ Advance(ResOk(0, {}), objs)
                    ELSE Advance(Merge(<<Res(SX!SetToSeq({Mis(e, o, tag, 0, First(c), e.out[First(c)], {e.chk[First(c)]}) : c \in classes}),
                                             Cardinality(bad), Len(e.out), {tag}), IdxRes(e)>>), objs)

Mut ==
    /\ IsEv("mut")
    /\ LET e == Ev
       IN  IF ~Live(e.o) THEN Advance(ResOk(0, {}), objs)
           ELSE IF objs[e.o].fam = "BIG"
           THEN \* only writes that leave the content as it is are generated for the big vectors: a bit of
                \* the leading run set to the run's value, a word of it overwritten with itself; the
                \* counters observed afterwards (metabig) must not move
                LET o == objs[e.o]
                    d == Rec[BigLineOf(o)]
                    fill == IF Has(d, "fill") THEN d.fill ELSE 0
                    same == \/ (e.m = "set" /\ e.a[1] >= 0 /\ e.a[1] < 1073741824 /\ e.a[2] = fill)
                            \/ (e.m = "set_bits" /\ e.a[1] >= 0 /\ e.a[2] >= 0 /\ e.a[2] <= 64 /\ e.a[1] + e.a[2] < 1073741824
                                /\ e.w = (IF fill = 1 THEN [q \in 1..e.a[2] |-> q - 1] ELSE << >>))
                    tag == "BIG." \o o.kind \o ".mut." \o e.m
                IN  IF ~same THEN ToolErr(e, "a mutation of a big vector that changes its content") /\ Advance(ResOk(0, {}), objs)
                    ELSE Advance(Check(e, o, tag, e.out = 0, e.out, {0}), objs)
           ELSE LET o == objs[e.o]
                    B == SeqOf(o)
                    a == IF Has(e, "a") THEN e.a ELSE << >>
                    ok == IF e.m = "append_bits" THEN MutAppendBitsOk(e.w, a[1])
                          ELSE IF e.m = "set" THEN MutSetOk(B, a[1])
                          ELSE IF e.m = "set_bits" THEN MutSetBitsOk(B, a[1], a[2], e.w)
                          ELSE IF e.m = "extend_positions" THEN MutExtendPositionsOk(e.pos)
                          ELSE IF e.m = "extend_with_zeros" THEN ~IsHuge(a[1])
                          ELSE TRUE
                    B2 == IF e.m = "push" THEN MutPush(B, a[1])
                          ELSE IF e.m = "append_bits" THEN MutAppendBits(B, e.w, a[1])
                          ELSE IF e.m = "extend_with_zeros" THEN MutExtendZeros(B, a[1])
                          ELSE IF e.m = "set" THEN MutSet(B, a[1], a[2])
                          ELSE IF e.m = "set_bits" THEN MutSetBits(B, a[1], a[2], e.w)
                          ELSE IF e.m \in {"extend_bools", "extend_bools_filter"} THEN B \o e.bits
                          ELSE IF e.m = "extend_positions" THEN MutExtendPositions(B, e.pos)
                          ELSE IF e.m = "qpush" THEN B \o <<a[1] % 4>>
                          ELSE IF e.m = "qextend" THEN B \o [q \in 1..Len(e.vals) |-> SymMod4(e.vals[q])]
                          ELSE B
                    pre == o.kind \o ".mut." \o e.m
                    hist == IF e.m = "set_bits" /\ ok /\ a[2] > 0 THEN "set_bits" ELSE o.hist
                    unordered == e.m = "extend_positions" /\ ~ok /\ PositionsDefined(e.pos)
                IN  IF unordered /\ e.out = 0
                    THEN \* an unordered / repeating position list was accepted: set semantics
                         Advance(ResOk(1, {pre \o ".unordered_ok"}),
                                 Put(e.o, [o EXCEPT !.line = 0, !.seq = MutExtendPositions(B, e.pos), !.hist = hist]))
                    ELSE IF ~ok
                    THEN \* documented panic: any outcome; the object is no longer tracked
                         Advance(ResOk(1, {pre \o ".documented_panic"}), Put(e.o, [o EXCEPT !.dead = TRUE]))
                    ELSE IF e.out = 0
                    THEN Advance(ResOk(1, {pre \o ".ok"}),
                                 Put(e.o, [o EXCEPT !.line = 0, !.seq = B2, !.hist = hist]))
                    ELSE Advance(ResBad(Mis(e, o, pre \o ".ok", 0, 0, e.out, {0}), {pre \o ".ok"}),
                                 Put(e.o, [o EXCEPT !.dead = TRUE]))

Conv ==
    /\ IsEv("conv")
    /\ LET e == Ev
       IN  IF ~Live(e.src) THEN Advance(ResOk(0, {}), objs)
           ELSE LET o == objs[e.src]
                    k2 == ConvKind(e.m, o.kind)
                    o2 == [o EXCEPT !.kind = k2, !.fam = FamOfKind(k2), !.hist = ""]
                    tag == "conv." \o e.m \o "." \o o.kind
                    huff == o.fam = "T" /\ TreeFamOf(o.kind) \in {"HQWT", "HWT"}
                    okres == IF e.ok = 0 THEN ResOk(1, {tag})
                             ELSE ResBad(Mis(e, o, tag, 0, 0, e.ok, {0}), {tag})
                    \* a copy compares equal to its source; a tree rebuilt from its own
                    \* iterator is a separately built tree: for Huffman trees equality
                    \* is then not required
                    eqres == IF e.eq = NA \/ e.ok # 0 \/ (huff /\ e.m = "collect_iter") THEN ResOk(0, {})
                             ELSE IF e.eq = 1 THEN ResOk(1, {tag \o ".eq"})
                             ELSE ResBad(Mis(e, o, tag \o ".eq", 0, 0, e.eq, {1}), {tag \o ".eq"})
                    base == IF e.keep = 1 THEN objs ELSE Del(e.src)
                IN  IF e.ok = NA THEN ToolErr(e, "conversion not available") /\ Advance(ResOk(0, {}), objs)
                    ELSE Advance(Merge(<<okres, eqres, IdxRes(e)>>),
                                 IF e.ok = 0 THEN [x \in (DOMAIN base) \cup {e.dst} |-> IF x = e.dst THEN o2 ELSE base[x]]
                                 ELSE base)

Drop == /\ IsEv("drop")
        /\ Advance(ResOk(0, {}), IF Ev.o \in DOMAIN objs THEN Del(Ev.o) ELSE objs)

\* == between two objects of the same concrete type
EqEv ==
    /\ IsEv("eq")
    /\ LET e == Ev
       IN  IF ~(Live(e.oa) /\ Live(e.ob)) \/ e.out = NA THEN Advance(ResOk(0, {}), objs)
           ELSE LET a == objs[e.oa] b == objs[e.ob]
                    same == SeqOf(a) = SeqOf(b) /\
                            (a.fam # "T" \/ [q \in 1..Len(SeqOf(a)) |-> Rec[a.line].alpha[SeqOf(a)[q]]]
                                            = [q \in 1..Len(SeqOf(b)) |-> Rec[b.line].alpha[SeqOf(b)[q]]])
                    huff == a.fam = "T" /\ TreeFamOf(a.kind) \in {"HQWT", "HWT"}
                    tag == "eq." \o a.kind \o (IF same THEN ".same" ELSE ".different")
                    \* separately built Huffman trees over the same sequence may differ
                    exp == IF same THEN (IF huff /\ a.line # b.line THEN {0, 1} ELSE {1}) ELSE {0}
                IN  IF e.out \in exp THEN Advance(ResOk(1, {tag}), objs)
                    ELSE Advance(ResBad(Mis(e, a, tag, 0, 0, e.out, exp), {tag}), objs)

Ith ==
    /\ IsEv("ith")
    /\ LET e == Ev
       IN  IF ~Live(e.o) THEN Advance(ResOk(0, {}), objs)
           ELSE Advance(Merge(<<IterJudge(e, objs[e.o]), IdxRes(e)>>),
                        IF e.m = "into_iter" /\ Has(e, "keep") /\ e.keep = 0 THEN Del(e.o) ELSE objs)

\* threads: every thread's outcome equals the sequential one, which is judged
\* against the clause tables like any grid
Thr ==
    /\ IsEv("thr")
    /\ LET e == Ev
       IN  IF ~Live(e.o) THEN Advance(ResOk(0, {}), objs)
           ELSE LET o == objs[e.o]
                    bad == {t \in 1..Len(e.outs) : ~SameVal(e.outs[t], e.seq[1])}
                    t0 == CHOOSE t \in bad : TRUE
                IN  Advance(IF bad = {} THEN ResOk(Len(e.outs), {"thr.same_as_sequential"})
                            ELSE ResBad(Mis(e, o, "thr.same_as_sequential", 0, t0, e.outs[t0], {e.seq[1]}),
                                        {"thr.same_as_sequential"}), objs)

Pure ==
    /\ IsEv("pure")
    /\ LET e == Ev
       IN  IF ~Live(e.o) THEN Advance(ResOk(0, {}), objs)
           ELSE LET o == objs[e.o]
                    r1 == IF e.same \in {1, NA} THEN ResOk(1, {"pure.serialized_form"})
                          ELSE ResBad(Mis(e, o, "pure.serialized_form", 0, 0, e.same, {1}), {"pure.serialized_form"})
                    r2 == IF SameVal(e.out1, e.out2) THEN ResOk(1, {"pure.repeatable"})
                          ELSE ResBad(Mis(e, o, "pure.repeatable", 0, 0, e.out2, {e.out1}), {"pure.repeatable"})
                IN  Advance(Merge(<<r1, r2>>), objs)

\* a call that killed the process (reconstructed by the runner from the write-ahead log)
Crash ==
    /\ IsEv("crash")
    /\ LET e == Ev
           o == IF Has(e, "o") /\ Live(e.o) THEN objs[e.o] ELSE NoObj
           tag == "crash." \o e.ek \o "." \o e.m
       IN  Advance(ResBad(Mis(e, o, tag, 0, 0, CRASH, {}), {tag}), << >>)

Abs(x) == IF x < 0 THEN -x ELSE x

\* retained and reported bytes (C14, C15, C16)
SpaceEv ==
    /\ IsEv("space")
    /\ LET e == Ev
       IN  IF ~Live(e.o) \/ objs[e.o].line = 0 THEN Advance(ResOk(0, {}), objs)
           ELSE LET o == objs[e.o]
                    n == IF NoValue(Rec[o.line]) THEN SegsLen(Rec[o.line].segs) ELSE Len(SeqOf(o))
                    kind == o.kind
                    isT == o.fam = "T"
                    fam == IF isT THEN TreeFamOf(kind) ELSE kind
                    mx == IF isT THEN TMeta[o.line].maxsym ELSE <<0>>
                    huff == isT /\ fam \in {"HQWT", "HWT"}
                    maxint == IF huff /\ SymSmall(mx) THEN SymToInt(mx) ELSE 0
                    hasheap == e.heap >= 0
                    actual == e.heap + e.selfsz
                    \* the per-level lengths of a Huffman tree are read from its serialized form; if that
                    \* field is not there (renamed by a refactoring) the checks that need it are skipped
                    nolens == huff /\ n > 0 /\ Len(e.lens) = 0
                    levels == IF nolens THEN 64
                              ELSE IF huff THEN Len(e.lens)
                              ELSE IF fam = "QWT" THEN QuadLevels(mx)
                              ELSE IF fam = "WT" THEN BinLevels(mx) ELSE 1
                    scaled == IF e.rep < 0 THEN ResOk(0, {})
                              ELSE Check(e, o, "space.scaled", e.kib = e.rep /\ e.mib = e.rep /\ e.gib = e.rep,
                                         <<e.kib, e.mib, e.gib>>, {<<e.rep, e.rep, e.rep>>})
                    tol == ReportTolerance(actual, levels + 2, huff, maxint)
                    reported == IF e.rep < 0 \/ ~hasheap THEN ResOk(0, {})
                                ELSE Check(e, o, "space.reported." \o fam, Abs(e.rep - actual) <= tol,
                                           e.rep, {actual, tol})
                    pb == PlainHeapBound(kind, n, mx)
                    bound == IF ~hasheap \/ pb < 0 THEN ResOk(0, {})
                             ELSE Check(e, o, "space.bound." \o fam, e.heap <= pb, e.heap, {pb})
                    used == IF isT THEN TMeta[o.line].used ELSE {}
                    cnts == [id \in used |-> CountIn(Rec[o.line].segs, id)]
                    ld == IF huff THEN HuffLevelBits(kind, e.lens) ELSE 0
                    hb == IF huff THEN HuffHeapBound(kind, e.lens, maxint) ELSE 0
                    hf == IF ~huff \/ n = 0 THEN << >>
                          ELSE IF nolens THEN <<ResOk(0, {"space.huff.lens_unavailable"})>>
                          ELSE <<Check(e, o, "space.huff.entropy." \o fam,
                                       ld <= NH0HiBits(n, cnts) + HuffFrag(kind) * n,
                                       ld, {NH0HiBits(n, cnts), HuffFrag(kind) * n}),
                                 Check(e, o, "space.huff.not_above_plain." \o fam,
                                       ld <= PlainLevelBits(kind, n, mx), ld, {PlainLevelBits(kind, n, mx)})>>
                                \o (IF hasheap THEN <<Check(e, o, "space.huff.heap." \o fam, e.heap <= hb, e.heap, {hb})>> ELSE << >>)
                IN  Advance(Merge(<<scaled, reported, bound>> \o hf), objs)

\* SpaceUsage of the std containers the crate implements it for (C16): a boxed slice of k
\* elements has k + 1 components
SpaceStdEv ==
    /\ IsEv("spstd")
    /\ LET e == Ev
           o == NoObj
       IN  IF e.rep = NA \/ e.heap = NA THEN Advance(ResOk(0, {}), objs)
           ELSE LET actual == e.heap + e.selfsz
                    tol == ReportTolerance(actual, Len(e.lens) + 1, FALSE, 0)
                IN  Advance(Check(e, o, "space.reported.std." \o e.shape,
                                  e.rep >= 0 /\ Abs(e.rep - actual) <= tol, e.rep, {actual, tol}), objs)

\* bit structures beyond 2^32 positions (C06, C07, C08): base zeros + tail
BigVal == [L \in BigLines |->
             LET T == Flat(Rec[L].segs)
             IN  [T |-> T, P1 |-> Positions(T, 1), P0 |-> Positions(T, 0)]]
NewBig ==
    /\ IsEv("newbig")
    /\ LET e == Ev
           tag == "BIG." \o e.kind \o ".new"
       IN  IF ~BigOk(e.base) THEN ToolErr(e, "malformed base of a big bit structure") /\ Advance(ResOk(0, {}), objs)
           ELSE IF e.out = 0 THEN Advance(ResOk(1, {tag}), Put(e.o, Obj("BIG", e.kind, "", 0, <<l>>, FALSE)))
           ELSE IF e.out = NA THEN ToolErr(e, "constructor not available") /\ Advance(ResOk(0, {}), objs)
           ELSE IF e.out = -9 THEN Advance(ResOk(0, {"BIG.skipped_low_memory"}), objs)   \* not attempted
           ELSE Advance(ResBad(Mis(e, NoObj, tag, 0, 0, e.out, {0}), {tag}), objs)

QBig ==
    /\ IsEv("qbig")
    /\ LET e == Ev
       IN  IF ~Live(e.o) \/ objs[e.o].fam # "BIG" THEN Advance(ResOk(0, {}), objs)
           ELSE LET o == objs[e.o]
                    d == Rec[BigLineOf(o)]
                    base == d.base
                    bv == BigVal[BigLineOf(o)]
                    T == bv.T
                    P1 == bv.P1
                    P0 == bv.P0
                    pre == "BIG." \o o.kind \o "."
                    K == 1..Len(e.rel)
                    relform == e.form = "rel"
                    \* the harness must have passed base + rel (or rel itself)
                    argok == \A j \in K : e.args[j] = (IF relform THEN BigAdd(base, e.rel[j]) ELSE SmallNum(e.rel[j]))
                    fill == IF Has(d, "fill") THEN d.fill ELSE 0
                    cl(j) == LET r == e.rel[j]
                             IN  IF e.m = "get" THEN BigGet(fill, T, r)
                                 ELSE IF e.m = "rank1" THEN BigRank(1, fill, base, T, P1, r)
                                 ELSE IF e.m = "rank0" THEN BigRank(0, fill, base, T, P0, r)
                                 ELSE IF e.m = "select1"
                                 THEN (IF relform THEN BigSelectRel(1, fill, base, P1, r) ELSE BigSelectAbs(1, fill, base, P1, r))
                                 ELSE (IF relform THEN BigSelectRel(0, fill, base, P0, r) ELSE BigSelectAbs(0, fill, base, P0, r))
                    bad == {j \in K : e.out[j] \notin cl(j).exp}
                    tags == {pre \o cl(j).tag : j \in K}
                    First(tg) == CHOOSE j \in bad : cl(j).tag = tg /\ \A jj \in bad : cl(jj).tag = tg => j <= jj
                    btags == {cl(j).tag : j \in bad}
                IN  IF Len(e.out) # Len(e.rel) \/ ~argok
                    THEN ToolErr(e, "big arguments not rendered as base + offset") /\ Advance(ResOk(0, {}), objs)
                    ELSE Advance(Res(SX!SetToSeq({Mis(e, o, pre \o tg, 0, First(tg), e.out[First(tg)], cl(First(tg)).exp) : tg \in btags}),
                                     Cardinality(bad), Len(e.rel), tags), objs)

\* long quad structures (C01, C05, C13): base copies of one symbol, then a tail
BigQVal == [L \in BigQLines |->
              LET F == Flat(Rec[L].segs)
                  T == [q \in 1..Len(F) |-> SymMod4(Rec[L].alpha[F[q]])]
              IN  [T |-> T, P |-> [sy \in 0..3 |-> Positions(T, sy)]]]
NewBigQ ==
    /\ IsEv("newbigq")
    /\ LET e == Ev
           tag == "BIGQ." \o e.kind \o ".new"
       IN  IF ~(e.base >= 0 /\ e.base < 1073741824 /\ e.f \in 0..3) THEN ToolErr(e, "malformed long quad structure") /\ Advance(ResOk(0, {}), objs)
           ELSE IF e.out = 0 THEN Advance(ResOk(1, {tag}), Put(e.o, Obj("BIGQ", e.kind, "", 0, <<l>>, FALSE)))
           ELSE IF e.out = NA THEN ToolErr(e, "constructor not available") /\ Advance(ResOk(0, {}), objs)
           ELSE IF e.out = -9 THEN Advance(ResOk(0, {"BIGQ.skipped_low_memory"}), objs)
           ELSE Advance(ResBad(Mis(e, NoObj, tag, 0, 0, e.out, {0}), {tag}), objs)

QBigQ ==
    /\ IsEv("qbigq")
    /\ LET e == Ev
       IN  IF ~Live(e.o) \/ objs[e.o].fam # "BIGQ" THEN Advance(ResOk(0, {}), objs)
           ELSE LET o == objs[e.o]
                    d == Rec[BigLineOf(o)]
                    base == d.base
                    f == d.f
                    bv == BigQVal[BigLineOf(o)]
                    T == bv.T
                    sy == e.c
                    Ps == IF sy <= 3 THEN bv.P[sy] ELSE << >>
                    tree == o.kind \notin {"QV", "RSQ256", "RSQ512"}
                    \* on a tree only symbols that occur are asked (its clauses for absent symbols differ)
                    occurs == sy <= 3 /\ (sy = f \/ Len(Ps) > 0)
                    pre == "BIGQ." \o o.kind \o "."
                    K == 1..Len(e.rel)
                    relform == e.form = "rel"
                    argok == \A j \in K : e.args[j] = (IF relform THEN base + e.rel[j] ELSE e.rel[j])
                    cl(j) == LET r == e.rel[j]
                             IN  IF e.m = "get" THEN BigQGet(f, T, r)
                                 ELSE IF e.m = "rank" THEN BigQRank(sy, f, base, T, Ps, r)
                                 ELSE IF e.m = "select" THEN BigQSelect(sy, f, base, Ps, IF relform THEN base + r ELSE r)
                                 ELSE IF e.m = "occs" THEN BigQOccs(sy, f, base, Ps)
                                 ELSE BigQOccsSmaller(sy, f, base, T)
                    bad == {j \in K : e.out[j] \notin cl(j).exp}
                    tags == {pre \o cl(j).tag : j \in K}
                    First(tg) == CHOOSE j \in bad : cl(j).tag = tg /\ \A jj \in bad : cl(jj).tag = tg => j <= jj
                    btags == {cl(j).tag : j \in bad}
                IN  IF Len(e.out) # Len(e.rel) \/ ~argok \/ (tree /\ e.m # "get" /\ ~occurs)
                    THEN ToolErr(e, "long quad query outside what the generator may ask") /\ Advance(ResOk(0, {}), objs)
                    ELSE Advance(Res(SX!SetToSeq({Mis(e, o, pre \o tg, 0, First(tg), e.out[First(tg)], cl(First(tg)).exp) : tg \in btags}),
                                     Cardinality(bad), Len(e.rel), tags), objs)

\* position iterators started at base + rel: the positions of the bit, in increasing order
IthBig ==
    /\ IsEv("ithbig")
    /\ LET e == Ev
       IN  IF ~Live(e.o) \/ objs[e.o].fam # "BIG" THEN Advance(ResOk(0, {}), objs)
           ELSE LET o == objs[e.o]
                    d == Rec[BigLineOf(o)]
                    base == d.base
                    bv == BigVal[BigLineOf(o)]
                    fill == IF Has(d, "fill") THEN d.fill ELSE 0
                    bit == IF e.m \in {"ones", "ones_with_pos"} THEN 1 ELSE 0
                    rel == IF e.m \in {"ones", "zeros"} THEN 0 ELSE e.rel
                    Pb == IF bit = 1 THEN bv.P1 ELSE bv.P0
                    \* offsets (from base) of the expected positions: the rest of the leading run, then the tail
                    lead == IF bit = fill /\ rel < 0 THEN [q \in 1..(-rel) |-> rel + q - 1] ELSE << >>
                    \* (binary search for the first tail position >= rel; only as many as were asked for)
                    r0 == IF rel <= 0 THEN 0 ELSE RankP(Pb, rel)
                    tail == [t \in 1..MinI(Len(e.out), Len(Pb) - r0) |-> Pb[r0 + t] - 1]
                    offs == lead \o tail
                    exp == [t \in 1..Len(e.out) |-> IF t <= Len(offs) THEN BigAdd(base, offs[t]) ELSE <<NONE>>]
                    tag == "BIG." \o o.kind \o ".iter." \o e.m
                    whole == e.m \in {"ones", "zeros"}
                    \* from the very start an iterator over the leading run's bit yields 0, 1, 2, ...
                    expstart == [t \in 1..Len(e.out) |-> SmallNum(t - 1)]
                    want == IF whole /\ bit = fill THEN expstart ELSE exp
                    startok == whole \/ e.start = BigAdd(base, e.rel)
                IN  IF ~startok THEN ToolErr(e, "big iterator start not rendered as base + offset") /\ Advance(ResOk(0, {}), objs)
                    ELSE Advance(Check(e, o, tag, e.out = want, e.out, {want}), objs)

MetaBig ==
    /\ IsEv("metabig")
    /\ LET e == Ev
       IN  IF ~Live(e.o) \/ objs[e.o].fam # "BIG" THEN Advance(ResOk(0, {}), objs)
           ELSE LET o == objs[e.o]
                    d == Rec[BigLineOf(o)]
                    T == BigVal[BigLineOf(o)].T
                    ones == Len(BigVal[BigLineOf(o)].P1)
                    pre == "BIG." \o o.kind \o ".meta."
                    F(f, exp) == IF e[f] = <<NA>> THEN ResOk(0, {})
                                 ELSE IF e[f] = exp THEN ResOk(1, {pre \o f})
                                 ELSE ResBad(Mis(e, o, pre \o f, 0, 0, e[f], {exp}), {pre \o f})
                    fill == IF Has(d, "fill") THEN d.fill ELSE 0
                    nones == IF fill = 1 THEN BigAdd(d.base, ones) ELSE SmallNum(ones)
                    nzeros == IF fill = 0 THEN BigAdd(d.base, Len(T) - ones) ELSE SmallNum(Len(T) - ones)
                IN  Advance(Merge(<<F("len", BigAdd(d.base, Len(T))), F("ones", nones),
                                    F("zeros", nzeros), F("zeros_trait", nzeros)>>), objs)

\* generators of perf_and_test_utils (outside the listed properties: reported as notes)
TuEv ==
    /\ IsEv("tu")
    /\ LET e == Ev
           o == NoObj
           tag == "testutil." \o e.m
           good == IF e.ok # 0 THEN FALSE
                   ELSE IF e.m = "gen_sequence" THEN TuBounded(e.out, e.n, e.sigma)
                   ELSE IF e.m = "gen_queries" THEN TuBounded(e.out, e.n, e.range)
                   ELSE IF e.m = "gen_queries_pairs" THEN TuPairs(e.out, e.n, e.range, e.sigma)
                   ELSE IF e.m = "gen_strictly_increasing_sequence" THEN TuIncreasing(e.out, e.n, e.u)
                   ELSE IF e.m = "negate_vector" THEN e.out = TuNegate(e.v)
                   ELSE IF e.m = "gen_rank_queries" THEN TuRankQueries(e.out, e.n, e.s)
                   ELSE IF e.m = "gen_select_queries" THEN TuSelectQueries(e.out, e.n, e.s)
                   ELSE TRUE
       IN  Advance(Check(e, o, tag, good, e.ok, {0}), objs)

\* word-level utilities (C17)
UtilEv ==
    /\ IsEv("util")
    /\ LET e == Ev
           o == NoObj
           res == IF e.m = "select_in_word"
                  THEN Merge([t \in 1..Len(e.ks) |->
                         Check(e, o, IF e.ks[t] < Len(e.w) THEN "util.select_in_word.found" ELSE "util.select_in_word.not_found",
                               e.out[t] = SelectInWord(e.w, e.ks[t], 64), e.out[t], {SelectInWord(e.w, e.ks[t], 64)})])
                  ELSE IF e.m = "select_in_word_u128"
                  THEN Merge([t \in 1..Len(e.ks) |->
                         Check(e, o, IF e.ks[t] < Len(e.w) THEN "util.select_in_word_u128.found" ELSE "util.select_in_word_u128.not_found",
                               e.out[t] = SelectInWord(e.w, e.ks[t], 128), e.out[t], {SelectInWord(e.w, e.ks[t], 128)})])
                  ELSE IF e.m = "popcnt_wide"
                  THEN Check(e, o, "util.popcnt_wide", e.out = PopcntWide(e.ws, e.n), e.out, {PopcntWide(e.ws, e.n)})
                  ELSE IF e.m = "msb"
                  THEN Check(e, o, "util.msb." \o e.ty, e.out = MsbOf(e.v), e.out, {MsbOf(e.v)})
                  ELSE IF e.m \in {"part4", "part2"}
                  THEN LET nb == IF e.m = "part4" THEN 2 ELSE 1
                           inp == [q \in 1..Len(e.seq) |-> e.alpha[e.seq[q]]]
                           exp == StablePartition(inp, e.shift, nb)
                       IN  Check(e, o, "util." \o e.m \o "." \o e.ty \o (IF e.shift >= 64 THEN ".shift_ge_64" ELSE ""),
                                 e.out = exp, e.out, {exp})
                  ELSE IF e.m = "text_remap"
                  THEN Merge(<<Check(e, o, "util.text_remap.size", e.d = TextRemapSize(e.bytes), e.d, {TextRemapSize(e.bytes)}),
                               Check(e, o, "util.text_remap.map", e.out = TextRemapSeq(e.bytes), e.out, {TextRemapSeq(e.bytes)})>>)
                  ELSE ResOk(0, {})
       IN  Advance(res, objs)

\* the same call in two builds of the crate (prefetch feature on / off)
XB ==
    /\ IsEv("xb")
    /\ LET e == Ev
           o == [kind |-> e.kind, ty |-> e.ty]
       IN  Advance(IF e.x = e.y THEN ResOk(1, {"rel.xbuild"})
                   ELSE ResBad(Mis(e, o, "rel.xbuild", 0, 0, e.y, {e.x}), {"rel.xbuild"}), objs)

Other ==
    /\ l <= NRec
    /\ Rec[l].k \notin {"reset", "newt", "newq", "newb", "meta", "qg", "relm", "relo", "uq", "mut",
                        "conv", "drop", "eq", "ith", "thr", "pure", "crash", "xb", "space", "util", "spstd",
                        "newbig", "qbig", "metabig", "ithbig", "newbigq", "qbigq", "tu"}
    /\ Advance(ResOk(0, {}), objs)

Finish ==
    /\ l = NRec + 1 /\ ~done
    /\ PrintT(<<"SUMMARY", ToJson([events |-> NRec, cells |-> ncell, bad |-> nbad, cov |-> cov])>>)
    /\ done' = TRUE
    /\ UNCHANGED <<l, objs, nbad, ncell, cov>>

Init == /\ l = 1 /\ objs = << >> /\ nbad = 0 /\ ncell = 0 /\ cov = {} /\ done = FALSE

Next == \/ Reset \/ NewObj \/ Meta \/ QGrid \/ RelM \/ RelO \/ Uq \/ Mut \/ Conv \/ Drop
        \/ EqEv \/ Ith \/ Thr \/ Pure \/ Crash \/ XB \/ SpaceEv \/ SpaceStdEv \/ UtilEv \/ TuEv \/ NewBig \/ QBig \/ MetaBig \/ IthBig \/ NewBigQ \/ QBigQ \/ Other \/ Finish

Spec == Init /\ [][Next]_vars

\* all lines consumed (diameter counts the initial state and the Finish step)
Accepted == \/ TLCGet("stats").diameter = NRec + 2
            \/ (PrintT(<<"INCOMPLETE", TLCGet("stats").diameter, NRec>>) /\ FALSE)

\* Level-0 invariant evaluated on every state of the trace: the abstract pool is well formed
PoolOk == \A id \in DOMAIN objs : objs[id].line = 0 \/ objs[id].line \in NewLines

============================================================================
