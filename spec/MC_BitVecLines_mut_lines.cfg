SPECIFICATION Spec
CONSTANTS
  LINE = 4
  W = 2
  Depth = 5
  MaxLen = 9
  ZeroArgs <- T_ZeroArgs
  SetPos <- T_SetPos
  BoolArgs <- T_BoolArgs
  PosArgs <- T_PosArgs
  ZerosLines = "plus_one"
VIEW NoDepth
INVARIANT RefinesLibBV
INVARIANT LineCount
INVARIANT PaddingZero
INVARIANT ReadsInRange
CHECK_DEADLOCK FALSE
