SPECIFICATION Spec
CONSTANTS
  Depth = 4
  PushVals <- T_PushVals
  ExtArgs <- T_ExtArgs
VIEW NoHist
INVARIANT LenInv
INVARIANT EmptyInv
INVARIANT QuadInv
INVARIANT GetInv
INVARIANT LowBitsInv
PROPERTY AppendOnly
CHECK_DEADLOCK FALSE
