------------------------------ MODULE MC_LibBV ------------------------------
(* Constant sets for the bounded checks and the behaviour generator of LibBV *)
EXTENDS LibBV

\* all words over the low `len` bits, as ascending lists of set positions
RECURSIVE WordsOf(_)
WordsOf(len) ==
    IF len = 0 THEN {<< >>}
    ELSE LET R == WordsOf(len - 1) IN R \cup {Append(w, len - 1) : w \in R}

\* ---- tiny constants: exhaustive invariant checking
T_AppendArgs == {<<len, w>> : len \in {0, 1, 2, 3}, w \in WordsOf(3)}   \* includes stray-bit words (disabled)
T_ZeroArgs == {0, 1, 3}
T_SetPos == 0..7
T_SetBitsArgs == {<<i, len, w>> : i \in 0..5, len \in {0, 1, 2, 3}, w \in WordsOf(3)}
T_BoolArgs == {<< >>, <<1>>, <<0, 1>>, <<1, 1, 0>>}
T_PosArgs == {<< >>, <<0>>, <<1>>, <<0, 2>>, <<1, 3>>, <<4>>, <<2, 1>>, <<1, 1>>, <<3, 0, 3>>}

\* ---- real constants (64-bit words, 512-bit lines): behaviour generation
Alt(len) == SelectSeq([q \in 1..len |-> q - 1], LAMBDA x : x % 2 = 0)
Full(len) == [q \in 1..len |-> q - 1]
R_AppendArgs == {<<0, << >>>>, <<1, <<0>>>>, <<3, <<1>>>>, <<63, Alt(63)>>, <<64, Full(64)>>, <<64, <<0, 63>>>>, <<64, << >>>>}
R_ZeroArgs == {0, 1, 63, 64, 65, 448, 511, 512, 513}
R_SetPos == {0, 1, 63, 64, 65, 511, 512, 513}
R_SetBitsArgs == {<<0, 0, << >>>>, <<0, 1, <<0>>>>, <<0, 64, Full(64)>>, <<0, 64, << >>>>, <<1, 63, <<0, 62>>>>, <<60, 8, <<0, 7>>>>,
                  <<63, 2, <<1>>>>, <<448, 64, Alt(64)>>, <<505, 14, <<0, 6, 7, 13>>>>, <<1, 64, <<63>>>>}
R_BoolArgs == {<<1>>, <<0>>, <<1, 0, 1>>}
R_PosArgs == {<<0>>, <<1>>, <<2, 3>>, <<1, 2, 70>>, <<600>>, <<3, 3>>, <<65, 2, 65>>}
=============================================================================
