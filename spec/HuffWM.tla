------------------------------- MODULE HuffWM -------------------------------
(***************************************************************************)
(* Level 1 design model of the Huffman-shaped wavelet matrices (C02, the   *)
(* HWT half of C03, the level-data half of C15):                           *)
(*   - `craft_wm_codes` (both copies: K = 4 in quadwt/huffqwt.rs, K = 2 in *)
(*     binwt/mod.rs) transcribed statement by statement: scratch array c,  *)
(*     counters m and l, the digit reversal;                               *)
(*   - construction of the levels (a symbol is written at a level only     *)
(*     while its code continues; `stable_partition_*_with_codes`), `lens`; *)
(*   - `get_unchecked` (early exit + decode table), `rank_unchecked`,      *)
(*     `select`, and the validity test "the symbol has a code".            *)
(* Levels are abstract digit sequences answered by the Level-0 operators   *)
(* (RSQ / RSBin are checked against those separately: compositional).      *)
(*                                                                         *)
(* Inputs: every code-length profile of a full K-ary tree with at most     *)
(* MaxLeaves leaves and depth at most MaxDepth, minus up to K-2 deepest    *)
(* leaves (incomplete trees), plus the one-symbol profile; symbols of      *)
(* equal length are interchangeable (the builder only looks at positions   *)
(* in the sorted list), so one tie order per profile covers all of them -  *)
(* the conformance check forces real tie orders through the hook.  For     *)
(* each profile, every sequence up to MaxN over its symbols.               *)
(***************************************************************************)
EXTENDS Clauses, TLC

CONSTANTS K, MaxLeaves, MaxDepth, MaxN,
          ScratchSize,  \* "code": K=4 -> 4*A, K=2 -> max(A, 2) ; "asfound": K=2 -> A
          Finished,     \* "last" (code): symbols whose code has ended are moved behind the continuing ones ; "first":
                        \* an equivalent design (the next level filters them out anyway: MC_HuffWM_k4_equiv_finished must PASS)
          EarlyExit,    \* TRUE (code): get stops as soon as its position falls outside the level ; FALSE: a seeded change
          GrowLoop      \* "while" (code): levels are opened until the next code length is reached ; "if": at most one
                        \* level per symbol - a seeded change that is only wrong when the code lengths have a gap

FR == IF K = 4 THEN 2 ELSE 1          \* bits per level
MASK == K - 1

VARIABLES prof, S
vars == <<prof, S>>

---------------------------------------------------------------------------
(* Profiles: sorted sequences of code lengths in fragments *)

RECURSIVE InsertSorted(_, _)
InsertSorted(s, x) ==
    IF s = << >> THEN <<x>>
    ELSE IF x <= s[1] THEN <<x>> \o s ELSE <<s[1]>> \o InsertSorted(Tail(s), x)

RemoveAt(s, i) == SubSeq(s, 1, i - 1) \o SubSeq(s, i + 1, Len(s))

RECURSIVE AddMany(_, _, _)
AddMany(s, x, cnt) == IF cnt = 0 THEN s ELSE AddMany(InsertSorted(s, x), x, cnt - 1)

\* expand one leaf of depth d into K leaves of depth d+1
Expand(p) == {AddMany(RemoveAt(p, i), p[i] + 1, K) : i \in {j \in 1..Len(p) : p[j] < MaxDepth}}

RECURSIVE FullProfiles(_)
FullProfiles(steps) ==
    IF steps = 0 THEN {<<0>>}
    ELSE LET R == FullProfiles(steps - 1)
         IN  R \cup UNION {Expand(p) : p \in {q \in R : Len(q) + K - 1 <= MaxLeaves}}

\* drop up to K-2 deepest leaves (the dummy leaves of an incomplete K-ary Huffman tree)
Incomplete(p) ==
    {SubSeq(p, 1, Len(p) - d) : d \in {dd \in 1..(K - 2) : Len(p) - dd >= 2 /\ p[Len(p) - dd + 1] = p[Len(p)]
                                         /\ Cardinality({i \in 1..Len(p) : p[i] = p[Len(p)]}) >= K}}

Profiles ==
    LET F == {p \in FullProfiles((MaxLeaves - 1) \div (K - 1)) : Len(p) >= 2}
    IN  F \cup UNION {Incomplete(p) : p \in F} \cup {<<1>>}

RECURSIVE SeqsOver(_, _)
SeqsOver(A, n) == IF n = 0 THEN {<< >>}
                  ELSE LET R == SeqsOver(A, n - 1) IN R \cup {Append(s, a) : s \in {r \in R : Len(r) = n - 1}, a \in 1..A}

Init == prof \in Profiles /\ S \in SeqsOver(Len(prof), MaxN)
Next == UNCHANGED vars
Spec == Init /\ [][Next]_vars

A == Len(prof)
OOB == -99

---------------------------------------------------------------------------
(* craft_wm_codes.  f[j] = <<symbol j, length in bits>>, j = 0..A-1 sorted *)
(* by length; c is the scratch array, m the number of codes so far, l the  *)
(* current length.  Arrays are 0-based in the code: c[x] is c[x + 1] here. *)

LenBits(j) == prof[j + 1] * FR
CSize == IF K = 4 THEN 4 * A ELSE IF ScratchSize = "code" THEN MaxI(A, 2) ELSE A

IsErr(c) == Len(c) = 1 /\ c[1] = OOB
Shl(x, n) == x * Pow2(n)
BitOr(x, bits, n) == x + Shl(bits, n)     \* the ORed bits are always free (asserted by CodesOk)

\* one round of the inner `for r in j..m` loop, r from j to m-1
RECURSIVE Spread(_, _, _, _, _)
Spread(c, j, m, l, r) ==
    IF r >= m THEN c
    ELSE LET cr == c[r + 1]
             w(x) == (m - j) * x + r + 1       \* 1-based index of c[(m-j)*x + r]
             bad == \E x \in 1..(K - 1) : w(x) > Len(c)
         IN  IF bad THEN <<OOB>>
             ELSE IF K = 4
             THEN Spread([c EXCEPT ![w(3)] = cr, ![w(2)] = BitOr(cr, 1, l), ![w(1)] = BitOr(cr, 2, l), ![r + 1] = BitOr(cr, 3, l)],
                         j, m, l, r + 1)
             ELSE Spread([c EXCEPT ![w(1)] = cr, ![r + 1] = BitOr(cr, 1, l)], j, m, l, r + 1)

\* the `while f[j].1 > l` loop
RECURSIVE Grow(_, _, _, _)
Grow(c, j, m, l) ==
    IF IsErr(c) THEN [c |-> c, m |-> m, l |-> l]
    ELSE IF LenBits(j) > l
    THEN (IF GrowLoop = "while"
          THEN Grow(Spread(c, j, m, l, j), j, K * m - (K - 1) * j, l + FR)
          ELSE [c |-> Spread(c, j, m, l, j), m |-> K * m - (K - 1) * j, l |-> l + FR])
    ELSE [c |-> c, m |-> m, l |-> l]

\* reverse the FR-bit digits of x (l bits)
RECURSIVE RevDigits(_, _)
RevDigits(x, l) == IF l = 0 THEN 0 ELSE (x % K) * Pow2(l - FR) + RevDigits(x \div K, l - FR)

\* the outer loop `for j in 0..alph_size`: state after j symbols
RECURSIVE Run(_)
Run(j) == IF j = 0 THEN [c |-> [x \in 1..CSize |-> 0], m |-> 1, l |-> 0, codes |-> << >>, err |-> FALSE]
                        ELSE LET prev == Run(j - 1)
                                 jj == j - 1
                             IN  IF prev.err THEN prev
                                 ELSE LET g == Grow(prev.c, jj, prev.m, prev.l)
                                      IN  IF IsErr(g.c) \/ jj + 1 > Len(g.c) THEN [prev EXCEPT !.err = TRUE]
                                          ELSE [c |-> g.c, m |-> g.m, l |-> g.l, err |-> FALSE,
                                                codes |-> Append(prev.codes, [content |-> RevDigits(g.c[jj + 1], g.l), len |-> g.l])]
Codes == Run(A)

Digit(code, lvl) == (code.content \div Pow2(code.len - lvl * FR)) % K   \* digit written at level lvl (1-based)
NDig(code) == code.len \div FR

---------------------------------------------------------------------------
(* Construction of the levels *)

NLevels(codes) == IF codes = << >> THEN 0 ELSE LET ls == {NDig(codes[a]) : a \in 1..Len(codes)} IN CHOOSE x \in ls : \A y \in ls : y <= x

\* stable_partition_*_with_codes at shift = lvl*FR: finished symbols (len <= shift) go last
Partition(codes, seq, lvl) ==
    LET fin(a) == NDig(codes[a]) <= lvl
        bucket(d) == SelectSeq(seq, LAMBDA a : ~fin(a) /\ Digit(codes[a], lvl) = d)
        RECURSIVE Cat(_)
        Cat(d) == IF d = K THEN (IF Finished = "last" THEN SelectSeq(seq, fin) ELSE << >>) ELSE bucket(d) \o Cat(d + 1)
    IN  (IF Finished = "first" THEN SelectSeq(seq, fin) ELSE << >>) \o Cat(0)

\* levels[lvl] = digits written at level lvl; built from the sequence as reordered so far
RECURSIVE BuildLevels(_, _, _)
BuildLevels(codes, seq, lvl) ==
    IF lvl > NLevels(codes) THEN << >>
    ELSE LET cur == SelectSeq(seq, LAMBDA a : NDig(codes[a]) >= lvl)
             digits == [q \in 1..Len(cur) |-> Digit(codes[cur[q]], lvl)]
         IN  <<digits>> \o BuildLevels(codes, Partition(codes, seq, lvl), lvl + 1)

---------------------------------------------------------------------------
(* Queries on the levels (0-based positions, as in the code) *)

OccsSmaller(L, d) == Len(SelectSeq(L, LAMBDA x : x < d))
RankL(L, d, i) == Cardinality({p \in 1..MinI(i, Len(L)) : L[p] = d})
SelectL(L, d, k) == IF k < Len(Positions(L, d)) THEN Positions(L, d)[k + 1] - 1 ELSE NONE

RECURSIVE GetWalk(_, _, _, _, _, _)
GetWalk(codes, levels, lvl, cur, res, nd) ==
    IF lvl > Len(levels) \/ (EarlyExit /\ cur >= Len(levels[lvl])) THEN <<res, nd>>
    ELSE IF cur >= Len(levels[lvl]) THEN <<OOB, nd>>   \* the unchecked read would leave the level
    ELSE LET L == levels[lvl]
             d == L[cur + 1]
         IN  GetWalk(codes, levels, lvl + 1, RankL(L, d, cur) + OccsSmaller(L, d), res * K + d, nd + 1)

DGet(codes, levels, i) ==
    IF i >= Len(S) THEN NONE
    ELSE LET w == GetWalk(codes, levels, 1, i, 0, 0)
             hit == {a \in 1..Len(codes) : NDig(codes[a]) = w[2] /\ codes[a].content = w[1]}
         IN  IF Cardinality(hit) = 1 THEN CHOOSE a \in hit : TRUE ELSE OOB   \* "could not translate symbol"

RECURSIVE RankWalk(_, _, _, _, _)
RankWalk(code, levels, lvl, p, i) ==
    IF lvl > NDig(code) THEN i - p
    ELSE IF lvl > Len(levels) \/ i > Len(levels[lvl]) \/ p > Len(levels[lvl]) THEN OOB
    ELSE LET L == levels[lvl] d == Digit(code, lvl) off == OccsSmaller(L, d)
         IN  RankWalk(code, levels, lvl + 1, RankL(L, d, p) + off, RankL(L, d, i) + off)

DRank(codes, levels, a, i) ==
    IF i > Len(S) \/ a > Len(codes) THEN NONE ELSE RankWalk(codes[a], levels, 1, 0, i)

\* select: down pass collects (b, rank_b) per level, up pass selects
RECURSIVE Down(_, _, _, _)
Down(code, levels, lvl, b) ==
    IF lvl > NDig(code) THEN << >>
    ELSE IF lvl > Len(levels) \/ b > Len(levels[lvl]) THEN <<<<OOB, OOB>>>>
    ELSE LET L == levels[lvl] d == Digit(code, lvl) rb == RankL(L, d, b)
         IN  <<<<b, rb>>>> \o Down(code, levels, lvl + 1, rb + OccsSmaller(L, d))

RECURSIVE Up(_, _, _, _, _)
Up(code, levels, path, lvl, res) ==
    IF lvl = 0 THEN res
    ELSE LET L == levels[lvl] d == Digit(code, lvl)
             s == SelectL(L, d, path[lvl][2] + res)
         IN  IF s = NONE THEN NONE ELSE Up(code, levels, path, lvl - 1, s - path[lvl][1])

DSelect(codes, levels, a, k) ==
    IF a > Len(codes) THEN NONE
    ELSE LET path == Down(codes[a], levels, 1, 0)
         IN  IF \E t \in 1..Len(path) : path[t][1] = OOB THEN OOB
             ELSE Up(codes[a], levels, path, NDig(codes[a]), k)

---------------------------------------------------------------------------
(* Properties *)

CodesOk ==
    LET r == Codes IN
    /\ ~r.err                                         \* scratch array never indexed past its end
    /\ Len(r.codes) = A
    /\ \A a \in 1..A : r.codes[a].len = prof[a] * FR   \* the requested lengths
    /\ \A a, b2 \in 1..A : a # b2 =>                  \* prefix-free
          LET x == r.codes[a] y == r.codes[b2]
          IN  x.len <= y.len => y.content \div Pow2(y.len - x.len) # x.content

Refines ==
    LET r == Codes
        codes == r.codes
        levels == BuildLevels(codes, S, 1)
        n == Len(S)
    IN  r.err \/
        /\ \A i \in 0..n : DGet(codes, levels, i) = (IF i < n THEN S[i + 1] ELSE NONE)
        /\ \A a \in 1..A : LET P == Positions(S, a) used == Len(P) > 0
                           IN  /\ \A i \in 0..(n + 1) : used => DRank(codes, levels, a, i) \in TreeRank("HQWT", n, <<0, A>>, <<0, a>>, TRUE, P, i).exp
                               /\ \A k \in 0..(Len(P) + 1) : used => DSelect(codes, levels, a, k) \in TreeSelect("HQWT", n, <<0, A>>, <<0, a>>, TRUE, P, k).exp

\* C15: the level data is exactly the sum of the code lengths (each symbol is written
\* only while its code continues), hence never more than the plain tree's
LevelData ==
    LET r == Codes levels == BuildLevels(r.codes, S, 1)
        F[j \in 0..Len(levels)] == IF j = 0 THEN 0 ELSE F[j - 1] + Len(levels[j])
        G[q \in 0..Len(S)] == IF q = 0 THEN 0 ELSE G[q - 1] + prof[S[q]]
    IN  r.err \/ F[Len(levels)] = G[Len(S)]
=============================================================================
