------------------------------- MODULE RSBin -------------------------------
(***************************************************************************)
(* Level 1 design model of the two rank/select bit vectors (C06):          *)
(*   "narrow" = RSNarrow: block = one 512-bit line, sub-block = one word,  *)
(*              per block a 64-bit rank and 7 sub-ranks of 9 bits;         *)
(*   "wide"   = RSWide: block = superblock of 8 lines, sub-block = a line,  *)
(*              per superblock a 44-bit rank and 7 sub-ranks of 12 bits,   *)
(*              a final superblock holding the total.                      *)
(* Both share one two-level scheme with select hints (one block index per  *)
(* HINT ones / zeros), modelled here with parametric constants:            *)
(*     SUBBITS bits per sub-block      (narrow 64, wide 512)               *)
(*     SPB     sub-blocks per block    (8)                                 *)
(*     LINE    bits per data line      (512; the data is padded to lines)  *)
(*     HINT    ones (zeros) per hint   (narrow 1024, wide 8192)            *)
(*     FW      width of a sub-rank field (narrow 9, wide 12)               *)
(* TLC checks for every bit vector up to MaxN bits and all arguments:      *)
(* refinement of the Level-0 clauses for rank1/rank0/select1/select0 and   *)
(* the totals, every array index in range, every field within its width,   *)
(* no unsigned subtraction below zero.  HintTiming = "late" reproduces a   *)
(* seeded change (hint sampled after the counter update of the next word). *)
(***************************************************************************)
EXTENDS Clauses, TLC

CONSTANTS Variant, SUBBITS, SPB, LINE, HINT, FW, MaxN, HintTiming

VARIABLE B
vars == <<B>>

RECURSIVE SeqsUpTo(_)
SeqsUpTo(n) == IF n = 0 THEN {<< >>} ELSE LET R == SeqsUpTo(n - 1) IN R \cup {Append(s, b) : s \in {r \in R : Len(r) = n - 1}, b \in {0, 1}}

Init == B \in SeqsUpTo(MaxN)
Next == UNCHANGED B
Spec == Init /\ [][Next]_vars

N == Len(B)
OOB == -99
UNDER == -98
NLines == (N + LINE - 1) \div LINE
Padded == NLines * LINE
Bit(p) == IF p < N THEN B[p + 1] ELSE 0          \* 0-based, zero padded
NU == Padded \div SUBBITS                         \* sub-blocks in the data
OnesIn(lo, hi) == Cardinality({p \in lo..(hi - 1) : Bit(p) = 1})   \* [lo, hi)
SubOnes(u) == OnesIn(u * SUBBITS, (u + 1) * SUBBITS)

---------------------------------------------------------------------------
(* Construction: loop over the sub-blocks u = 0 .. NU-1                    *)
(* state: rank (ones so far), zeros (zeros so far incl. padding), h1/h0    *)
(* (hints so far), c1/c0 (hint counters)                                   *)

RECURSIVE Hints(_)
Hints(u) ==
    IF u = 0 THEN [rank |-> 0, zeros |-> 0, h1 |-> <<0>>, h0 |-> <<0>>, c1 |-> 0, c0 |-> 0]
    ELSE LET p == Hints(u - 1)
             w == u - 1                          \* the sub-block processed in this iteration
             pop == SubOnes(w)
             rank2 == p.rank + pop
             zeros2 == p.zeros + (SUBBITS - pop)
             blk == w \div SPB
             \* the seeded change tests the counters before adding this sub-block's population
             t1 == IF HintTiming = "code" THEN rank2 ELSE p.rank
             push1 == t1 \div HINT > p.c1
             push0 == zeros2 \div HINT > p.c0
         IN  [rank |-> rank2, zeros |-> zeros2,
              h1 |-> IF push1 THEN Append(p.h1, blk) ELSE p.h1,
              h0 |-> IF push0 THEN Append(p.h0, blk) ELSE p.h0,
              c1 |-> IF push1 THEN p.c1 + 1 ELSE p.c1,
              c0 |-> IF push0 THEN p.c0 + 1 ELSE p.c0]

NB == (NU + SPB - 1) \div SPB                    \* blocks holding data

\* ones before block k (k = 0 .. NB), as stored
BlockRankStored ==
    LET base == [k \in 1..(NB + 1) |-> OnesIn(0, MinI((k - 1) * SPB * SUBBITS, Padded))]
    IN  IF Variant = "narrow"
        THEN \* [0, r1 .. rL] and, when the number of lines is not a multiple of SPB, rL once more
             IF NLines % SPB > 0 THEN Append(base, base[NB + 1]) ELSE base
        ELSE \* one entry per (possibly partial) superblock plus the final one holding the total
             base

\* sub-ranks of block k: ones inside the block before sub-block j (j = 1 .. SPB-1);
\* sub-blocks missing from a partial last block hold the block's total
SubRank(k, j) ==
    LET lo == k * SPB * SUBBITS
        hi == MinI((k * SPB + j) * SUBBITS, Padded)
    IN  IF k >= NB THEN 0 ELSE OnesIn(lo, MaxI(lo, hi))

Index ==
    LET h == Hints(NU)
        R == BlockRankStored
    IN  [R |-> R, h1 |-> Append(h.h1, Len(R) - 1), h0 |-> Append(h.h0, Len(R) - 1)]

---------------------------------------------------------------------------
(* Queries *)

BlockRank(ix, k) == IF k + 1 \in DOMAIN ix.R THEN ix.R[k + 1] ELSE OOB

\* rank of ones before sub-block u
SubBlockRank(ix, u) ==
    LET k == u \div SPB j == u % SPB
        br == BlockRank(ix, k)
    IN  IF br = OOB THEN OOB ELSE br + (IF j = 0 THEN 0 ELSE SubRank(k, j))

DRank1(ix, i) ==
    IF N = 0 \/ i > N THEN NONE
    ELSE IF i = 0 THEN 0
    ELSE LET u == (i - 1) \div SUBBITS
             sbr == SubBlockRank(ix, u)
         IN  IF sbr = OOB \/ u >= NU THEN OOB ELSE sbr + OnesIn(u * SUBBITS, i)

\* ones (bit = 1) or zeros (bit = 0) before block k / sub-block u
BlockCount(ix, bit, k) ==
    LET br == BlockRank(ix, k) IN IF br = OOB THEN OOB ELSE IF bit = 1 THEN br ELSE SPB * SUBBITS * k - br
SubCount(ix, bit, u) ==
    LET sr == SubBlockRank(ix, u) IN IF sr = OOB THEN OOB ELSE IF bit = 1 THEN sr ELSE SUBBITS * u - sr

RECURSIVE BlockSearch(_, _, _, _, _)
BlockSearch(ix, bit, i, start, end) ==
    IF start < end /\ BlockCount(ix, bit, start) # OOB /\ BlockCount(ix, bit, start) <= i
    THEN BlockSearch(ix, bit, i, start + 1, end) ELSE start

DSelect(ix, bit, i, total) ==
    IF i >= total THEN NONE
    ELSE LET hs == IF bit = 1 THEN ix.h1 ELSE ix.h0
             hint == i \div HINT
         IN  IF hint + 2 \notin DOMAIN hs THEN OOB
             ELSE LET start == BlockSearch(ix, bit, i, hs[hint + 1], 1 + hs[hint + 2])
                  IN  IF start < 1 + hs[hint + 2] /\ BlockCount(ix, bit, start) = OOB THEN OOB
                      ELSE IF start < 1 THEN UNDER
                      ELSE LET pos0 == (start - 1) * SPB
                               \* first j in 0..SPB-1 whose count exceeds i
                               over == {j \in 0..(SPB - 1) : SubCount(ix, bit, pos0 + j) > i}
                               j0 == IF over = {} THEN SPB ELSE CHOOSE j \in over : \A jj \in over : j <= jj
                           IN  IF j0 = 0 THEN UNDER
                               ELSE LET u == pos0 + j0 - 1
                                        rk == SubCount(ix, bit, u)
                                        occ == {p \in (u * SUBBITS)..((u + 1) * SUBBITS - 1) : Bit(p) = bit}
                                    IN  IF u >= NU THEN OOB
                                        ELSE IF i < rk THEN UNDER
                                        ELSE IF Cardinality(occ) <= i - rk THEN OOB
                                        ELSE CHOOSE p \in occ : Cardinality({x \in occ : x < p}) = i - rk

\* totals as the code computes them
NOnes(ix) ==
    IF Variant = "wide" THEN N - (N - OnesIn(0, Padded))
    ELSE IF N = 0 THEN 0 ELSE LET r == DRank1(ix, N - 1) IN IF r = OOB THEN OOB ELSE r + Bit(N - 1)

---------------------------------------------------------------------------
(* Properties *)

Refines ==
    LET ix == Index
        P1 == Positions(B, 1)
        P0 == Positions(B, 0)
        ones == NOnes(ix)
    IN  /\ ones = Len(P1)
        /\ \A i \in 0..(N + 1) : DRank1(ix, i) \in BitRank1(B, P1, i).exp
        /\ \A k \in 0..(Len(P1) + 1) : DSelect(ix, 1, k, ones) \in BitSelect("select1", B, P1, k).exp
        /\ \A k \in 0..(Len(P0) + 1) : DSelect(ix, 0, k, N - ones) \in BitSelect("select0", B, P0, k).exp

\* every stored sub-rank fits its field
FieldsFit == \A k \in 0..(NB - 1) : \A j \in 1..(SPB - 1) : SubRank(k, j) < Pow2(FW)

\* hint h of the ones is a block at or before the block holding occurrence h*HINT, and the
\* next hint is at or after it: the search window always contains the answer
HintsBracket ==
    LET ix == Index P1 == Positions(B, 1)
    IN  \A k \in 0..(Len(P1) - 1) :
          LET blk == (P1[k + 1] - 1) \div (SPB * SUBBITS)
              h == k \div HINT
          IN  h + 2 \in DOMAIN ix.h1 /\ ix.h1[h + 1] <= blk + 1 /\ blk <= ix.h1[h + 2]
=============================================================================
