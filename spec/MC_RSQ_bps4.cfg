SPECIFICATION Spec
CONSTANTS
  LINE = 2
  BS = 2
  BPS = 4
  SAMPLE = 3
  MaxN = 7
  SentinelGuard = "code"
  SampleSlot = "code"
  PredTest = "code"
INVARIANT Refines
INVARIANT CountersExact
INVARIANT SamplesExact
INVARIANT NSuperblocks
CHECK_DEADLOCK FALSE
