SPECIFICATION Spec
CONSTANTS
  K = 4
  MaxLeaves = 10
  MaxDepth = 3
  MaxN = 4
  ScratchSize = "code"
  Finished = "last"
  EarlyExit = TRUE
INVARIANT CodesOk
INVARIANT Refines
INVARIANT LevelData
CHECK_DEADLOCK FALSE
